# C09 - list, queue, stack and grow buffer are exact sequences.
# Lockstep run of the implementation (harness/h_seq.c), the extracted model (QL/QW) and the extracted
# specification (QLS/QWS) on generated histories: bounded-exhaustive sweeps over (n, index), size limits,
# element shapes; random histories; directed FIFO/LIFO/concatenation histories.
from vlib import *

AREA = 'seq'
LIST_FUNCS = ['qlist_addat', 'get_obj', 'get_at', 'remove_obj', 'qlist_removeat', 'qlist_getnext', 'qlist_reverse',
              'qlist_clear', 'qlist_toarray', 'qlist_tostring', 'qlist_setsize']
MUTATING = ('addfirst', 'addlast', 'addat', 'popfirst', 'poplast', 'popat', 'removefirst', 'removelast', 'removeat',
            'reverse', 'clear')
# element shapes: plain, trailing NUL, embedded NUL, only NULs, NUL first, binary
SHAPES = [b'a', b'\0', b'b\0', b'\0\0', b'c\0d', b'e\0f\0', b'\0g', b'\xff\x80', b'hij', b'k\0\0']


def elem(rng):
    r = rng.random()
    if r < 0.45:
        return rng.choice(SHAPES)
    if r < 0.5:
        return bytes(rng.randrange(256) for _ in range(rng.randrange(20, 200)))
    return bytes(rng.choice([0, 0, 65, 66, 255, rng.randrange(256)]) for _ in range(rng.randrange(1, 7)))


def arg(rng, e=None):
    """data argument incl. the refused ones: NULL pointer, size 0"""
    r = rng.random()
    if r < 0.04:
        return 'null'
    if r < 0.08:
        return '-'
    return hexs(e if e is not None else elem(rng))


def idx(rng, n):
    r = rng.random()
    if r < 0.9:
        return rng.randrange(-n - 2, n + 3)
    if r < 0.95:
        return rng.choice([-2 ** 31, 2 ** 31 - 1, -2 ** 31 + 1, 2 ** 31 - 2])
    return rng.choice([-2 ** 31 + n, -2 ** 31 + n + 1, 2 ** 31 - 1 - n, 65536, -65536, 2 ** 16 + n])


def gen_list_history(rng, nops, mix):
    """mix in ('edit', 'walk', 'limit').  n is only an estimate of the length (ops may be refused)."""
    ops, n = [], 0
    w = {'edit': [14, 14, 16, 4, 4, 10, 5, 5, 10, 4, 4, 8, 6, 3, 3, 1, 2, 3, 3, 4, 4],
         'walk': [8, 10, 8, 2, 2, 4, 2, 2, 4, 2, 2, 4, 40, 8, 3, 1, 1, 2, 2, 3, 3],
         'limit': [14, 14, 14, 2, 2, 4, 5, 5, 8, 5, 5, 8, 3, 2, 2, 1, 12, 4, 2, 2, 2]}[mix]
    kinds = ['addfirst', 'addlast', 'addat', 'getfirst', 'getlast', 'getat', 'popfirst', 'poplast', 'popat',
             'removefirst', 'removelast', 'removeat', 'next', 'curreset', 'reverse', 'clear', 'setsize', 'size',
             'datasize', 'toarray', 'tostring']
    stale = False
    for _ in range(nops):
        k = rng.choices(kinds, weights=w)[0]
        nm = rng.choice([0, 1, 1])
        if k in ('addfirst', 'addlast'):
            ops.append('%s %s' % (k, arg(rng)))
            n += 1
        elif k == 'addat':
            ops.append('addat %d %s' % (idx(rng, n), arg(rng)))
            n += 1
        elif k in ('getfirst', 'getlast'):
            ops.append('%s %d' % (k, nm))
        elif k == 'getat':
            ops.append('getat %d %d' % (idx(rng, n), nm))
        elif k in ('popat', 'removeat'):
            ops.append('%s %d' % (k, idx(rng, n)))
            n = max(0, n - 1)
        elif k in ('popfirst', 'poplast', 'removefirst', 'removelast'):
            ops.append(k)
            n = max(0, n - 1)
        elif k == 'next':
            if stale and rng.random() < 0.85:
                ops.append('curreset')
                stale = False
            ops.append('next %d' % nm)
        elif k == 'setsize':
            ops.append('setsize %d' % rng.choice([0, 0, 1, 2, 3, 4, 4, n, n + 1, max(0, n - 1), 2 ** 40, 2 ** 32 + rng.randrange(0, 4), 2 ** 31 + rng.randrange(0, 3)]))
        elif k == 'clear':
            ops.append(k)
            n = 0
        else:
            ops.append(k)
        if k == 'curreset':
            stale = False
        if k in MUTATING:
            stale = True
    return ops


def gen_wrap_history(rng, nops, kind):
    ops, n = [], 0
    if kind == 'grow':
        kinds, w = ['add', 'addstr', 'size', 'datasize', 'toarray', 'tostring', 'clear'], [30, 30, 5, 5, 12, 14, 2]
        for _ in range(nops):
            k = rng.choices(kinds, weights=w)[0]
            if k == 'add':
                ops.append('add ' + arg(rng))
            elif k == 'addstr':
                e = elem(rng) if rng.random() < 0.3 else bytes(rng.choice(b'abcxyz ') for _ in range(rng.randrange(0, 6)))
                if b'\0' in e or rng.random() < 0.6:
                    ops.append('addstr ' + hexs(e))
                else:
                    ops.append('addstrf ' + (hexs(e) or '-'))
            else:
                ops.append(k)
        return ops
    kinds = ['push', 'pushstr', 'pushint', 'pop', 'popstr', 'popint', 'popat', 'get', 'getstr', 'getint', 'getat', 'size',
             'clear', 'setsize']
    w = [16, 12, 12, 10, 6, 6, 6, 5, 4, 4, 6, 4, 1, 3]
    for _ in range(nops):
        k = rng.choices(kinds, weights=w)[0]
        if k == 'push':
            ops.append('push ' + arg(rng))
            n += 1
        elif k == 'pushstr':
            r = rng.random()
            e = elem(rng) if r < 0.2 else bytes(rng.choice(b'abcxyz ') for _ in range(rng.randrange(0, 6)))
            ops.append('pushstr ' + ('null' if r > 0.97 else hexs(e)))
            n += 1
        elif k == 'pushint':
            ops.append('pushint %d' % rng.choice([0, 1, -1, 2 ** 63 - 1, -2 ** 63, rng.randrange(-2 ** 63, 2 ** 63), rng.randrange(-300, 300)]))
            n += 1
        elif k == 'popat':
            ops.append('popat %d' % idx(rng, n))
            n = max(0, n - 1)
        elif k == 'getat':
            ops.append('getat %d %d' % (idx(rng, n), rng.choice([0, 1])))
        elif k == 'get':
            ops.append('get %d' % rng.choice([0, 1]))
        elif k == 'setsize':
            ops.append('setsize %d' % rng.choice([0, 0, 1, 2, 3, 4, n, n + 1]))
        else:
            ops.append(k)
            if k.startswith('pop'):
                n = max(0, n - 1)
            if k == 'clear':
                n = 0
    return ops


# ---------------------------------------------------------------- bounded-exhaustive sweeps
def E(k):
    return hexs(bytes([0x41 + k]) + (b'\0' if k % 3 == 1 else b'') + (b'\0z' if k % 3 == 2 else b''))


def sweep_histories(maxn, maxlim):
    hs = []
    # every (n, index) for every indexed operation of the list
    for n in range(maxn + 1):
        fill = ['addlast ' + E(k) for k in range(n)]
        for i in range(-n - 2, n + 3):
            for o in ('addat %d 58' % i, 'getat %d 1' % i, 'getat %d 0' % i, 'popat %d' % i, 'removeat %d' % i):
                hs.append(('list', fill + [o, 'size', 'datasize', 'toarray']))
        # first/last forms and the whole-list operations on every length
        for o in ('addfirst 58', 'addlast 58', 'getfirst 1', 'getlast 1', 'popfirst', 'poplast', 'removefirst', 'removelast'):
            hs.append(('list', fill + [o, 'toarray', 'tostring']))
        hs.append(('list', fill + ['reverse', 'toarray', 'tostring', 'curreset'] + ['next 1'] * (n + 2) + ['reverse', 'reverse', 'getat 0 1', 'getat -1 1']))
        hs.append(('list', fill + ['curreset'] + ['next %d' % (k % 2) for k in range(n + 2)] + ['clear', 'size', 'datasize', 'toarray', 'tostring', 'next 1', 'curreset', 'next 1']))
        # list built through addat at every position (front insertion by -(n+1), middle insertion walks from either end)
        for i in range(-n - 1, n + 1):
            hs.append(('list', fill + ['addat %d 58' % i, 'addat %d 59' % i, 'toarray'] + ['popat %d' % j for j in (i, 0, -1)]))
        # wrappers: indexed access on queue and stack
        for c in ('queue', 'stack'):
            wfill = ['push ' + E(k) for k in range(n)]
            for i in range(-n - 2, n + 3):
                hs.append((c, wfill + ['getat %d 1' % i, 'popat %d' % i, 'size']))
    # size limits 0..maxlim combined with removals, set before / after filling, also below the current length
    for lim in range(maxlim + 1):
        for pre in range(0, 6):
            fill = ['addlast ' + E(k) for k in range(pre)]
            for i in range(-pre - 2, pre + 3):
                hs.append(('list', fill + ['setsize %d' % lim, 'addat %d 58' % i, 'removefirst', 'addat %d 59' % i, 'addlast 5a', 'addfirst 5b',
                                           'poplast', 'addlast 5c', 'size', 'setsize 0', 'addlast 5d']))
            hs.append(('list', ['setsize %d' % lim] + fill + ['size', 'clear', 'addlast 58', 'addlast 59', 'setsize %d' % (lim + 1), 'addlast 5a']))
            for c in ('queue', 'stack'):
                hs.append((c, ['setsize %d' % lim] + ['push ' + E(k) for k in range(pre)] + ['pop', 'push 58', 'push 59', 'size', 'pop', 'pop']))
    # refused arguments on every length
    for n in range(0, 4):
        fill = ['addlast ' + E(k) for k in range(n)]
        for a in ('null', '-'):
            hs.append(('list', fill + ['addfirst ' + a, 'addlast ' + a, 'addat 1 ' + a, 'addat -9 ' + a, 'size']))
            hs.append(('queue', ['push ' + E(k) for k in range(n)] + ['push ' + a, 'pushstr ' + a, 'size', 'pop']))
            hs.append(('stack', ['push ' + E(k) for k in range(n)] + ['push ' + a, 'pushstr ' + a, 'size', 'pop']))
            hs.append(('grow', ['add ' + E(k) for k in range(n)] + ['add ' + a, 'addstr -', 'size', 'toarray']))
    return hs


def shape_histories(maxlen):
    """all lists of <= maxlen elements over the element shapes: flattening and walking"""
    hs = []
    sh = SHAPES[:7]

    def rec(prefix):
        if prefix:
            k = len(prefix)
            fill = ['addlast ' + hexs(e) for e in prefix]
            hs.append(('list', fill + ['tostring', 'toarray', 'datasize', 'curreset'] + ['next 1'] * (k + 1) + ['reverse', 'tostring']))
            hs.append(('grow', ['add ' + hexs(e) for e in prefix] + ['tostring', 'toarray', 'datasize', 'size']))
        if len(prefix) < maxlen:
            for e in sh:
                rec(prefix + [e])
    rec([])
    return hs


def directed_wrap(rng, count):
    hs = []
    for _ in range(count):
        k = rng.randrange(1, 12)
        xs = [elem(rng) for _ in range(k)]
        for c in ('queue', 'stack'):
            hs.append((c, ['push ' + hexs(x) for x in xs] + ['size'] + ['pop'] * (k + 1)))
        ss = [bytes(rng.choice(b'abcdefgh') for _ in range(rng.randrange(1, 5))) for _ in range(k)]
        for c in ('queue', 'stack'):
            hs.append((c, ['pushstr ' + hexs(x) for x in ss] + ['getstr'] + ['popstr'] * (k + 1)))
            zs = [rng.randrange(-2 ** 63, 2 ** 63) for _ in range(k)]
            hs.append((c, ['pushint %d' % z for z in zs] + ['getint'] + ['popint'] * (k + 1)))
        hs.append(('grow', ['addstr ' + hexs(x) for x in ss] + ['tostring', 'toarray', 'size', 'datasize', 'clear', 'tostring', 'addstr 61', 'tostring']))
        hs.append(('grow', [rng.choice(['addstr ', 'addstrf ']) + hexs(x) for x in ss] + ['tostring', 'size', 'datasize']))
    # plain strings are stored byte for byte whatever they contain: doubled percent signs stay doubled
    for x in (b'%%', b'a%%b', b'100%%', b'%%%%', b'%%s', b'x%%d%%y'):
        hs.append(('grow', ['addstr 61', 'addstr ' + hexs(x), 'size', 'datasize', 'tostring', 'toarray']))
    # element limits whose low 32 bits are small: the limit is a size_t, never an int
    for lim in (2 ** 32, 2 ** 32 + 1, 2 ** 32 + 2, 2 ** 31, 2 ** 31 + 1, 2 ** 33 + 3, 2 ** 62 + 1, 2 ** 63 - 1):
        for pre in (0, 1, 2, 3, 4):
            fill = ['addlast ' + E(k) for k in range(pre)]
            hs.append(('list', ['setsize %d' % lim] + fill + ['addlast 58', 'addfirst 59', 'addat 1 5a', 'addat -1 5b', 'size', 'tostring']))
            hs.append(('list', fill + ['setsize %d' % lim, 'addlast 58', 'addfirst 59', 'addat 1 5a', 'size']))
            for c in ('queue', 'stack'):
                hs.append((c, ['setsize %d' % lim] + ['push ' + E(k) for k in range(pre)] + ['push 58', 'push 59', 'size', 'pop', 'pop']))
    # formatted pieces of every length around the sizes at which a formatting buffer has to grow
    lens = sorted(set(list(range(0, 40)) + [n + d for n in (64, 128, 255, 256, 512, 1023, 1024, 2047, 2048, 4095, 4096) for d in (-2, -1, 0, 1, 2)]))
    for i in range(0, len(lens), 6):
        ops = []
        for n in lens[i:i + 6]:
            ops += ['addstrf ' + (hexs(bytes(0x61 + (j * 7 + n) % 26 for j in range(n))) or '-'), 'size', 'datasize']
        hs.append(('grow', ops + ['tostring', 'toarray']))
    return hs


# ---------------------------------------------------------------- running
def run_all(ctx, exe, hists):
    """hists: list of (container, ops).  One harness run and one driver run.  Returns per-history list of (impl, model, spec)."""
    lines = []
    for c, ops in hists:
        lines.append('new ' + c)
        lines += ops
    data = ('\n'.join(lines) + '\n').encode()
    rc1, o1, e1 = ctx.run([exe], inp=data, timeout=1800)
    rc2, o2, e2 = ctx.driver([AREA], inp=data, timeout=1800)
    il = o1.decode('latin1').splitlines()
    dl = o2.decode('latin1').splitlines()
    ml, sl = dl[0::2], dl[1::2]
    err = None
    if rc1 != 0:
        err = 'harness exit %s: %s' % (rc1, e1.decode('latin1')[-400:])
    if rc2 != 0:
        err = (err or '') + ' driver exit %s: %s' % (rc2, e2.decode('latin1')[-400:])
    out, pos = [], 0
    for c, ops in hists:
        rows = []
        for _ in ops:
            rows.append((il[pos] if pos < len(il) else 'MISSING', ml[pos][2:] if pos < len(ml) else 'MISSING',
                         sl[pos][2:] if pos < len(sl) else 'MISSING'))
            pos += 1
        out.append(rows)
    return out, err


def model_only(ctx, hists):
    lines = []
    for c, ops in hists:
        lines.append('new ' + c)
        lines += ops
    rc, o, e = ctx.driver([AREA], inp=('\n'.join(lines) + '\n').encode(), timeout=1800)
    dl = o.decode('latin1').splitlines()
    ml, sl = dl[0::2], dl[1::2]
    out, pos = [], 0
    for c, ops in hists:
        out.append([(ml[pos + i][2:], sl[pos + i][2:]) for i in range(len(ops))])
        pos += len(ops)
    return out


NEUTRAL = {'next': 'curreset', 'popint': 'pop', 'getint': 'get 1', 'addstr': 'size'}


def sanitize(ctx, hists):
    """The model says CRASH where the C code would dereference a dangling cursor pointer, over-read a short element as int64
    or call strlen(NULL): such ops are outside the contract and must not be run against the real library (undefined
    behaviour, not a refusal).  Replace them by a neutral op until no history crashes in the model."""
    hists = [(c, list(ops)) for c, ops in hists]
    pending = list(range(len(hists)))            # only histories changed in the previous round are run again
    for _ in range(200):
        if not pending:
            return hists, None
        res = model_only(ctx, [hists[j] for j in pending])
        again = []
        for j, rows in zip(pending, res):
            c, ops = hists[j]
            for i, (m, s) in enumerate(rows):
                if m.startswith('CRASH') or m.startswith('FUEL'):
                    k = ops[i].split()[0]
                    if m.startswith('FUEL') or k not in NEUTRAL:
                        return hists, 'model returned %s on `%s` (history: %s)' % (m, ops[i], ' ; '.join(ops[:i + 1][-15:]))
                    ops[i] = NEUTRAL[k]
                    again.append(j)
                    break
        pending = again
    return hists, 'sanitize did not converge'


def parse_dump(d):
    m = re.match(r'num=(\d+) sum=(\d+) max=(\d+) \[([^\]]*)\](.*)', d)
    if not m:
        return None
    items = [x for x in m.group(4).split(',') if x != '']
    return int(m.group(1)), int(m.group(2)), int(m.group(3)), items, m.group(5).strip()


def monitor(opline, impl, spec):
    """The property on the implementation's output: observation and contents equal the ideal sequence's,
    stored count and byte total exact, chain consistent in both directions.  Returns a signature or None."""
    kind = opline.split()[0]
    if impl in ('DEAD', 'MISSING'):
        return None
    if impl in ('CRASH', 'TIMEOUT'):
        return {'op': kind, 'observed': impl.lower()}
    if ' | ' not in impl or ' | ' not in spec:
        return {'op': kind, 'observed': 'unparsable'}
    iobs, idump = impl.split(' | ', 1)
    sobs, sdump = spec.split(' | ', 1)
    pd = parse_dump(idump)
    sm = re.match(r'max=(\d+) \[([^\]]*)\]', sdump)
    if pd is None or sm is None:
        return {'op': kind, 'observed': 'unparsable'}
    num, dsum, mx, items, extra = pd
    sitems = [x for x in sm.group(2).split(',') if x != '']
    if 'BADLINKS' in extra:
        return {'op': kind, 'observed': 'inconsistent-links'}
    if sobs != 'UNDEF' and iobs != sobs:
        if iobs.startswith('fail') and not sobs.startswith('fail'):
            return {'op': kind, 'observed': 'wrongly-refused'}
        if sobs.startswith('fail') and not iobs.startswith('fail'):
            return {'op': kind, 'observed': 'wrongly-accepted'}
        if sobs.startswith('fail') and iobs.startswith('fail'):
            return {'op': kind, 'observed': 'wrong-errno'}
        return {'op': kind, 'observed': 'wrong-result'}
    if items != sitems:
        if sobs.startswith('fail'):
            return {'op': kind, 'observed': 'refused-but-changed'}
        if sorted(items) == sorted(sitems):
            return {'op': kind, 'observed': 'wrong-order'}
        return {'op': kind, 'observed': 'wrong-contents'}
    if num != len(items):
        return {'op': kind, 'observed': 'wrong-count'}
    if dsum != sum(len(unhex(x)) for x in items):
        return {'op': kind, 'observed': 'wrong-datasum'}
    if mx != int(sm.group(1)):
        return {'op': kind, 'observed': 'wrong-max'}
    return None


def shrink(ctx, exe, cont, ops, sig):
    def fails(cand):
        res, err = run_all(ctx, exe, [(cont, cand)])
        for i, (a, m, s) in enumerate(res[0]):
            if m.startswith('CRASH') or m.startswith('DEAD'):
                return None              # never run the library outside the contract
            if monitor(cand[i], a, s) == sig:
                return i
        return None
    cur = list(ops)
    if len(cur) > 600:
        return cur
    n, budget = 2, 150
    while len(cur) >= 2 and budget > 0:
        chunk = max(1, len(cur) // n)
        removed = False
        for start in range(0, len(cur) - 1, chunk):
            cand = cur[:start] + cur[start + chunk:]
            budget -= 1
            if not cand:
                continue
            # check in the model first that the candidate stays inside the contract
            mo = model_only(ctx, [(cont, cand)])[0]
            if any(m.startswith(('CRASH', 'FUEL', 'DEAD')) for m, _ in mo):
                continue
            r = fails(cand)
            if r is not None:
                cur = cand[:r + 1]
                n = max(n - 1, 2)
                removed = True
                break
            if budget <= 0:
                break
        if not removed:
            if chunk == 1:
                break
            n = min(n * 2, len(cur))
    return cur


def evaluate(ctx, exe, hists, label):
    res, err = run_all(ctx, exe, hists)
    if err:
        ctx.broken.append(('correspondence:%s-run' % label, err))
    nbad = 0
    for (cont, ops), rows in zip(hists, res):
        diverged = False
        for i, (a, m, s) in enumerate(rows):
            ctx.cov['evaluations'] += 1
            ctx.count('%s:%s:%s' % (label, cont, ops[i].split()[0]))
            if ' | ' in a:
                ctx.count('outcome:' + ' '.join(a.split(' | ')[0].split()[:2 if a.startswith('fail') else 1]))
                if i > 0:
                    ctx.distinct.add(cont + ' ' + a.split(' | ', 1)[1])
            if s.startswith('UNDEF'):
                ctx.count('spec-undefined(stale cursor etc.; compared with the model only)')
            sig = monitor(ops[i], a, s)
            if sig is not None:
                sig['container'] = cont
                small = shrink(ctx, exe, cont, ops[:i + 1], dict((k, v) for k, v in sig.items() if k != 'container'))
                if small and small != ops[:i + 1]:          # lines of the shrunk history's last op
                    rr, _ = run_all(ctx, exe, [(cont, small)])
                    if rr and rr[0]:
                        a, m, s = rr[0][-1]
                ctx.report('impl-vs-spec', sig, '%s: %s %s' % (cont, sig['op'], sig['observed']),
                           {'ops': ['new ' + cont] + small, 'failing_op': small[-1] if small else ops[i], 'impl': a[:600], 'spec': s[:600], 'model': m[:600]})
                break
            if a != m and not diverged:
                diverged = True
                nbad += 1
                if nbad <= 3:
                    ctx.broken.append(('correspondence:%s' % label, '%s history, op %d `%s`:\n impl : %s\n model: %s\n(prefix: %s)' % (
                        cont, i, ops[i], a[:500], m[:500], ' ; '.join(ops[:i][-14:]))))
    if hists:
        c, ops = hists[len(hists) // 2]
        ctx.sample({'set': label, 'container': c, 'ops': ops[:14], 'impl_last_line': res[len(hists) // 2][-1][0][:300] if res[len(hists) // 2] else ''})
    return nbad


def run(ctx, replay=None):
    props = ['Properties_C09'] if os.path.exists(os.path.join(COQ, 'Properties_C09.v')) else []
    exe = prepare(ctx, props, 'h_seq', CORE_SRCS, ['h_seq.c'], cov=True)
    if exe is None:
        ctx.finish('build failed')
    rng = ctx.rng
    quick = ctx.tier == 'quick'
    if replay:
        d = json.load(open(replay))
        ops = d.get('replay', {}).get('ops')
        if not ops:
            print(json.dumps(d, indent=1)[:3000])
            print('VIOLATION property=%s replay=%s no-failing-input-found' % (ctx.pid, replay))
            sys.exit(1)
        cont = ops[0].split()[1] if ops[0].startswith('new ') else 'list'
        body = [o for o in ops if not o.startswith('new ')]
        hs, serr = sanitize(ctx, [(cont, body)])
        if hs[0][1] != body:
            print('note: ops outside the contract (model: CRASH) were neutralised before running the library')
        res, err = run_all(ctx, exe, hs)
        for o, (a, m, s) in zip(hs[0][1], res[0]):
            print('op    : %s\nimpl  : %s\nmodel : %s\nspec  : %s' % (o, a, m, s))
        evaluate(ctx, exe, hs, 'replay')
        if ctx.violations or ctx.broken:
            for _, _, rp in ctx.violations:
                print('VIOLATION property=%s replay=%s' % (ctx.pid, rp))
            for k, dd in ctx.broken:
                print('BROKEN', k, dd)
            sys.exit(1)
        print('replay: implementation agrees with model and specification on this history')
        sys.exit(0)

    nb = 0
    # 1. bounded-exhaustive
    sw = sweep_histories(8 if quick else 12, 4 if quick else 6)
    nb += evaluate(ctx, exe, sw, 'sweep')
    sh = shape_histories(3 if quick else 4)
    nb += evaluate(ctx, exe, sh, 'shapes')
    ctx.cov['sweep_histories'] = len(sw) + len(sh)
    # 2. random histories
    hs = []
    for i in range(120 if quick else 4000):
        mix = ['edit', 'walk', 'limit'][i % 3]
        hs.append(('list', gen_list_history(rng, rng.choice([60, 200, 400]), mix)))
    for i in range(60 if quick else 2000):
        c = ['queue', 'stack', 'grow'][i % 3]
        hs.append((c, gen_wrap_history(rng, rng.choice([40, 150, 300]), c)))
    hs += directed_wrap(rng, 10 if quick else 300)
    # a long one (nearest-end walk over hundreds of nodes)
    for i in range(1 if quick else 6):
        n = 300 if quick else 1500
        ops = ['addlast ' + hexs(bytes([k % 251 + 1, k // 251 + 1])) for k in range(n)]
        for _ in range(200):
            ops.append(rng.choice(['getat %d 1', 'popat %d', 'removeat %d', 'addat %d 7a7a']) % rng.randrange(-n // 2, n // 2))
        ops += ['size', 'datasize', 'reverse', 'getat 0 1', 'getat -1 1']
        hs.append(('list', ops))
    hs, serr = sanitize(ctx, hs)
    if serr:
        ctx.broken.append(('correspondence:sanitize', serr))
    nb += evaluate(ctx, exe, hs, 'random')
    ctx.cov['random_histories'] = len(hs)
    ctx.cov['exhaustive'] = False
    ctx.cov['exhaustive_note'] = ('every (n, index) with n <= %d, index in [-n-2, n+2] for addat/getat/popat/removeat (list) and getat/popat (queue, stack); '
                                  'size limits 0..%d x prefill 0..5 x every index; all lists of <= %d elements over 7 element shapes (plain, trailing/embedded/only NUL) for '
                                  'tostring/toarray/walk; random histories beyond' % (8 if quick else 12, 4 if quick else 6, 3 if quick else 4))
    ctx.cov['correspondence_mismatches'] = nb
    ctx.cov['traces_validated_against_impl'] = len(sw) + len(sh) + len(hs)
    try:
        ctx.cov['gcov'] = ctx.gcov('h_seq', 'containers/qlist.c', LIST_FUNCS)
    except Exception as ex:     # coverage figures are informative only
        ctx.cov['gcov'] = 'unavailable: %s' % ex
    ctx.assumptions += ['num < 2^31 (int indexes); indexes are C ints',
                        'a getnext cursor is only specified while the list is not modified after the cursor was obtained (stale cursors: compared with the model only; dangling ones are never run)',
                        'popint/getint on elements shorter than 8 bytes and qgrow addstr(NULL) are outside the contract (model: Crash) and are not run against the library',
                        'caller buffers are exact-size heap blocks scribbled and freed right after each call',
                        'single-threaded; allocation never fails']
    ctx.finish('bounded-exhaustive (n,index) sweeps, size limits x removals, element shapes, random list/queue/stack/grow histories; every op: impl vs extracted spec '
               '(observation, contents, num = length, datasum = total bytes, max, prev/next chain consistent) and impl vs extracted model (whole line incl. stored counters); '
               'distinct_nontrivial = distinct (container, counters, contents) dumps observed after at least one op')
