from harrcommon import harr_check
import os
def run(ctx, replay=None):
    props = ['Properties_C07'] if os.path.exists(os.path.join(os.path.dirname(os.path.abspath(__file__)), '..', 'coq', 'Properties_C07.v')) else []
    harr_check(ctx, props, 'C07', replay)
