# C18 — hash functions equal their published algorithms for every input, as pure functions of exactly the given bytes.
import hashlib, struct
from vlib import *

SRCS = ['utilities/qhash.c', 'internal/md5/md5c.c']
FUNCS = ['qhashmd5', 'qhashmd5_file', 'qhashfnv1_32', 'qhashfnv1_64', 'qhashmurmur3_32', 'qhashmurmur3_128',
         'MD5Init', 'MD5Update', 'MD5Pad', 'MD5Final', 'MD5Transform']
OPS = ['fnv32', 'fnv64', 'mm32', 'mm128', 'md5']
SPEC_MAX = 4096          # the extracted Coq specs are run on inputs up to this size (quick); python references on every size

# ---------------------------------------------------------------- python references (cross-check of the extracted specs, and monitor for large inputs)
def lcg(seed, n):
    x = seed & 0x7fffffff
    out = bytearray(n)
    for i in range(n):
        x = (x * 1103515245 + 12345) & 0x7fffffff
        out[i] = (x >> 16) & 0xff
    return bytes(out)

def py_fnv(w, prime, basis, m):
    h, mask = basis, (1 << w) - 1
    for c in m:
        h = ((h * prime) & mask) ^ c
    return h

def rotl(x, r, w):
    return ((x << r) | (x >> (w - r))) & ((1 << w) - 1)

def py_mm32(m, seed=0):
    M = 0xffffffff
    h = seed
    nb = len(m) // 4
    for i in range(nb):
        k = struct.unpack_from('<I', m, 4 * i)[0]
        k = (k * 0xcc9e2d51) & M; k = rotl(k, 15, 32); k = (k * 0x1b873593) & M
        h ^= k; h = rotl(h, 13, 32); h = (h * 5 + 0xe6546b64) & M
    t = m[4 * nb:]
    if t:
        k = int.from_bytes(t, 'little')
        k = (k * 0xcc9e2d51) & M; k = rotl(k, 15, 32); k = (k * 0x1b873593) & M
        h ^= k
    h ^= len(m) & M
    h ^= h >> 16; h = (h * 0x85ebca6b) & M; h ^= h >> 13; h = (h * 0xc2b2ae35) & M; h ^= h >> 16
    return h

def py_mm128(m, seed=0):
    M = (1 << 64) - 1
    c1, c2 = 0x87c37b91114253d5, 0x4cf5ad432745937f
    h1 = h2 = seed
    nb = len(m) // 16
    for i in range(nb):
        k1, k2 = struct.unpack_from('<QQ', m, 16 * i)
        k1 = (k1 * c1) & M; k1 = rotl(k1, 31, 64); k1 = (k1 * c2) & M; h1 ^= k1
        h1 = rotl(h1, 27, 64); h1 = (h1 + h2) & M; h1 = (h1 * 5 + 0x52dce729) & M
        k2 = (k2 * c2) & M; k2 = rotl(k2, 33, 64); k2 = (k2 * c1) & M; h2 ^= k2
        h2 = rotl(h2, 31, 64); h2 = (h2 + h1) & M; h2 = (h2 * 5 + 0x38495ab5) & M
    t = m[16 * nb:]
    if len(t) > 8:
        k2 = int.from_bytes(t[8:], 'little'); k2 = (k2 * c2) & M; k2 = rotl(k2, 33, 64); k2 = (k2 * c1) & M; h2 ^= k2
    if len(t) > 0:
        k1 = int.from_bytes(t[:8], 'little'); k1 = (k1 * c1) & M; k1 = rotl(k1, 31, 64); k1 = (k1 * c2) & M; h1 ^= k1
    h1 ^= len(m); h2 ^= len(m)
    h1 = (h1 + h2) & M; h2 = (h2 + h1) & M
    def fmix(k):
        k ^= k >> 33; k = (k * 0xff51afd7ed558ccd) & M; k ^= k >> 33; k = (k * 0xc4ceb9fe1a85ec53) & M; k ^= k >> 33
        return k
    h1 = fmix(h1); h2 = fmix(h2)
    h1 = (h1 + h2) & M; h2 = (h2 + h1) & M
    return struct.pack('<QQ', h1, h2).hex()

def py_ref(op, m):
    if op == 'fnv32':
        return '%08x' % py_fnv(32, 16777619, 2166136261, m)
    if op == 'fnv64':
        return '%016x' % py_fnv(64, 1099511628211, 14695981039346656037, m)
    if op == 'mm32':
        return '%08x' % py_mm32(m)
    if op == 'mm128':
        return py_mm128(m)
    return hashlib.md5(m).hexdigest()

# ---------------------------------------------------------------- inputs
def darg(m):
    return hexs(m)

def materialise(d):
    if d.startswith('R'):
        s, n = d[1:].split(',')
        return lcg(int(s), int(n))
    return unhex(d)

def gen_inputs(ctx):
    """list of (class, data-arg).  Lengths 0..600 in four content classes; larger seeded random sizes."""
    r = ctx.rng
    xs = []
    for n in range(0, 601):
        for _ in range(1 if ctx.tier == 'quick' else 3):
            xs.append(('random', darg(bytes(r.randrange(256) for _ in range(n)))))
        xs.append(('zeros', darg(b'\x00' * n)))
        xs.append(('ff', darg(b'\xff' * n)))
        # embedded NULs: random bytes with about a quarter zeroed, position 0 or the last position forced to NUL in turn
        b = bytearray(r.randrange(1, 256) if r.random() < .75 else 0 for _ in range(n))
        if n:
            b[(0, n - 1, n // 2)[n % 3]] = 0
        xs.append(('nuls', darg(bytes(b))))
        if ctx.tier == 'thorough' and n:
            b = bytearray(r.choice(b'\x00\x00\x01\x80\xff') for _ in range(n))
            xs.append(('nuls', darg(bytes(b))))
    big = [1000, 1023, 1024, 1025, 4095, 4096, 4097, 8191, 32767, 32768, 32769, 65535, 65536, 65537]
    if ctx.tier == 'quick':
        big += [r.randrange(601, 20000) for _ in range(6)] + [100003]
    else:
        big += [r.randrange(601, 200000) for _ in range(40)] + [262144 + 7, 524288 - 1, 1 << 20, (1 << 20) - 17]
    for n in big:
        xs.append(('random-large', 'R%d,%d' % (r.randrange(1, 1 << 30), n)))
    return xs

def gen_file_ops(ctx):
    r = ctx.rng
    sizes = [0, 1, 2, 55, 56, 63, 64, 65, 119, 120, 128, 1000, 32767, 32768, 32769, 65536, 70001]
    if ctx.tier == 'thorough':
        sizes += [98304, 131072 + 5, 300000, 1 << 20]
    ops = []
    for sz in sizes:
        d = 'R%d,%d' % (r.randrange(1, 1 << 30), sz)
        offs = sorted(set([0, 1, sz // 2, max(sz - 1, 0), sz, min(sz, 32768), min(sz, 63), min(sz, 64)]))
        for off in offs:
            rest = max(sz - off, 0)
            lens = sorted(set([0, 1, rest, rest + 1, max(rest - 1, 0), min(rest, 32768), min(rest, 32769), min(rest, 32767), min(rest, 64), r.randrange(0, rest + 1)]))
            for nb in lens:
                ops.append((d, off, nb))
    # the same (size, offset, nbytes) on different contents back to back: the digest depends on the bytes read now, not on an earlier call
    for sz in (64, 1000, 32768):
        for off, nb in ((0, 0), (1, sz - 2), (0, sz)):
            for _ in range(3):
                ops.append(('R%d,%d' % (r.randrange(1, 1 << 30), sz), off, nb))
    ops += [('R7,10', -1, 0), ('R7,10', 0, -1), ('R7,10', -3, -3)]        # EINVAL path
    return ops

# ---------------------------------------------------------------- running (driver processes in parallel; deep recursion on long lists needs a large stack)
def op_cost(o):
    w = o.split()
    d = w[1]
    n = int(d.split(',')[1]) if d.startswith('R') else len(d) // 2
    return 200 + n * (3 if w[0] == 'fnv64' else 1)

def run_chunks(ctx, cmd, ops, timeout=1500):
    """run cmd on the op lines spread over concurrent processes (greedy balancing by estimated cost); returns (lines in op order, err)"""
    if not ops:
        return [], None
    nchunk = max(1, min(NCPU, len(ops) // 20 + 1))
    order = sorted(range(len(ops)), key=lambda i: -op_cost(ops[i]))
    load = [0] * nchunk
    chunks = [[] for _ in range(nchunk)]
    for i in order:
        k = load.index(min(load))
        chunks[k].append(i); load[k] += op_cost(ops[i])
    chunks = [sorted(c) for c in chunks if c]

    def one(ch):
        data = ('\n'.join(ops[i] for i in ch) + '\n').encode()
        return ctx.run(['sh', '-c', 'ulimit -s unlimited 2>/dev/null || ulimit -s 1000000 2>/dev/null; exec "$0" "$@"'] + cmd, inp=data, timeout=timeout)
    with ThreadPoolExecutor(NCPU) as ex:
        res = list(ex.map(one, chunks))
    lines, err = ['MISSING'] * len(ops), None
    for ch, (rc, o, e) in zip(chunks, res):
        l = o.decode('latin1').splitlines()
        if rc != 0 or len(l) != len(ch):
            err = '%s exit %s, %d of %d lines: %s' % (cmd[0].split('/')[-1] + ' ' + ' '.join(cmd[1:]), rc, len(l), len(ch), e.decode('latin1')[-400:])
        for i, x in zip(ch, l):
            lines[i] = x
    return lines, err

def gcov_funcs(ctx, out, repo_src, funcs):
    objdir = os.path.join(ctx.scratch, 'obj-' + out)
    obj = os.path.join(objdir, 'r_' + repo_src.replace('/', '_') + '.o')
    rc, o = sh(['gcov', '-b', '-f', '-o', obj, os.path.join(REPO, 'src', repo_src)], cwd=objdir, timeout=120)
    res, cur = {}, None
    for line in o.splitlines():
        m = re.match(r"Function '(.*)'", line)
        if m:
            cur = m.group(1); continue
        if line.startswith('File '):
            cur = 'file ' + os.path.basename(repo_src); continue
        m = re.match(r'(Lines executed|Branches executed|Taken at least once):([\d.]+)% of (\d+)', line)
        if m and cur and (cur in funcs or cur.startswith('file ')):
            res.setdefault(cur, {}).setdefault(m.group(1), '%s%% of %s' % (m.group(2), m.group(3)))
    return res

def classify(impl, want):
    """signature of an implementation observation that differs from the published value"""
    if impl == 'CRASH' or impl.startswith('UNSTABLE hi=CRASH') or impl.startswith('UNSTABLE hi=') and 'lo=CRASH' in impl:
        return 'reads-outside-buffer'
    if impl.startswith('UNSTABLE'):
        return 'depends-on-address-or-surroundings'
    if impl in ('TIMEOUT', 'MISSING'):
        return 'no-result'
    return 'differs-from-published'

def run(ctx, replay=None):
    exe = prepare(ctx, ['Properties_C18'], 'h_hashfn', SRCS, ['h_hashfn.c'], cov=(replay is None), wrap=('read',))
    if exe is None:
        ctx.finish('build failed')
    drv = os.path.join(OCAML, 'driver')
    if replay:
        d = json.load(open(replay))
        r = d.get('replay', {})
        ops = r.get('ops') or ([r['op']] if 'op' in r else [])
        if not ops:
            print('replay file names no ops (obligation-level finding): ' + json.dumps(d.get('broken', d), indent=1)[:2000])
            print('VIOLATION property=C18 replay=%s' % replay); sys.exit(1)
        il, _ = run_chunks(ctx, [exe], ops)
        ml, _ = run_chunks(ctx, [drv, 'hashfn'], ops)
        sl, _ = run_chunks(ctx, [drv, 'hashfn', 'spec'], ops)
        bad = False
        for i, o in enumerate(ops):
            print('op    : %s\nimpl  : %s\nmodel : %s\nspec  : %s' % (o[:200], il[i], ml[i], sl[i]))
            w = o.split()
            nonempty = w[1] != '-' and not w[1].endswith(',0')
            if il[i] != ml[i] or ((nonempty or w[0] == 'md5file') and il[i] != sl[i]):
                bad = True
        if bad:
            print('VIOLATION property=C18 replay=%s' % replay); sys.exit(1)
        print('replay: implementation now agrees with model and published algorithm on these ops')
        sys.exit(0)

    xs = gen_inputs(ctx)
    ops, meta = [], []
    for cls, d in xs:
        for op in OPS:
            ops.append('%s %s' % (op, d)); meta.append((op, cls, d))
    fops = gen_file_ops(ctx)
    for d, off, nb in fops:
        ops.append('md5file %s %d %d' % (d, off, nb)); meta.append(('md5file', 'file', (d, off, nb)))
    il, err = run_chunks(ctx, [exe], ops)
    if err:
        ctx.broken.append(('correspondence:harness-run', err))
    ml, err = run_chunks(ctx, [drv, 'hashfn'], ops)
    if err:
        ctx.broken.append(('correspondence:model-run', err))
    # extracted specs: every input up to SPEC_MAX (thorough: every input), file ops up to 70 KB
    spec_limit = SPEC_MAX if ctx.tier == 'quick' else (1 << 21)
    def dlen(d):
        return int(d.split(',')[1]) if d.startswith('R') else (0 if d == '-' else len(d) // 2)
    file_limit = (1 << 17) if ctx.tier == 'quick' else (1 << 21)
    sidx = [i for i, (op, cls, d) in enumerate(meta) if (dlen(d) <= spec_limit if op != 'md5file' else dlen(d[0]) <= file_limit)]
    sl_part, err = run_chunks(ctx, [drv, 'hashfn', 'spec'], [ops[i] for i in sidx])
    if err:
        ctx.broken.append(('correspondence:spec-run', err))
    spec = {i: s for i, s in zip(sidx, sl_part)}
    corr_bad = spec_bad = 0
    cache = {}
    for i, (op, cls, d) in enumerate(meta):
        impl, model = il[i], ml[i]
        ctx.cov['evaluations'] += 1
        ctx.count('op:' + op); ctx.count('class:' + cls)
        if op == 'md5file':
            dd, off, nb = d
            if dd not in cache:
                cache[dd] = materialise(dd)
            f = cache[dd]
            valid = off >= 0 and nb >= 0 and off + nb <= len(f)
            ref = hashlib.md5(f[off:off + (nb or len(f) - off)]).hexdigest() if valid else 'FALSE'
            n = (nb or len(f) - off) if valid else 0
            ctx.count('file:' + ('valid-range' if valid else 'range-beyond-eof'))
            ctx.distinct.add(('md5file', len(f), off, nb))
        else:
            if d not in cache:
                if len(cache) > 64:
                    cache.clear()
                cache[d] = materialise(d)
            m = cache[d]
            n = len(m)
            ref = py_ref(op, m)
            valid = n >= 1                       # the property is about non-empty inputs; length 0 is correspondence only
            if n:
                ctx.distinct.add((op, n, cls))
            ctx.count('len:' + ('0' if n == 0 else '1-63' if n < 64 else '64-600' if n <= 600 else '601-65536' if n <= 65536 else '>65536'))
        mh = re.match(r'UNSTABLE hi=(\S+)', impl)      # the model runs on the exactly-sized buffer: that is the `hi` placement
        if (mh.group(1) if mh else impl) != model:
            corr_bad += 1
            if corr_bad <= 5:
                ctx.broken.append(('correspondence:' + op, '%s: impl=%s model=%s' % (ops[i][:300], impl[:200], model)))
        if i in spec and (valid or op == 'md5file') and spec[i] != ref:
            spec_bad += 1
            if spec_bad <= 3:
                ctx.broken.append(('correspondence:spec-vs-independent-reference', '%s: extracted Coq spec=%s python reference=%s' % (ops[i][:300], spec[i], ref)))
        # property monitor: the implementation's observation is the published algorithm's value (extracted spec where run, else the cross-checked reference)
        if valid or (op == 'md5file'):
            want = spec.get(i, ref)
            if impl != want:
                sig = {'op': op, 'observed': classify(impl, want)}
                if op != 'md5file' and b'\x00' in cache[d] and impl == py_ref(op, cache[d][:cache[d].index(b'\x00')]) and cache[d].index(b'\x00') > 0:
                    sig['observed'] = 'stops-at-first-nul'
                ctx.report('impl-vs-spec', sig, '%s: result is not the published algorithm applied to exactly the given bytes (%s)' % (op, sig['observed']),
                           {'op': ops[i], 'expected': want, 'actual': impl, 'length': n})
    # read() as the file function sees it: legal short reads must not change the digest; a read that fails (EINTR) must end in a
    # reported failure or in the right digest, never in a digest of something else.  (The model assumes full reads: these ops are
    # compared with the independent reference only.)
    fault_ops, fault_ref = [], []
    for d, off, nb in [t for t in fops if t[1] >= 0 and t[2] >= 0][:: (7 if ctx.tier == 'quick' else 2)]:
        f = cache.get(d) or materialise(d)
        if off + nb > len(f):
            continue
        want = hashlib.md5(f[off:off + (nb or len(f) - off)]).hexdigest()
        n = nb or len(f) - off
        for mode, k in (('s', 1 if n < 200 else 4093), ('s', 32767), ('e', 1), ('e', 2), ('e', 3)):
            fault_ops.append('md5file %s %d %d %s %d' % (d, off, nb, mode, k)); fault_ref.append((mode, want, n))
    fl, err = run_chunks(ctx, [exe], fault_ops)
    if err:
        ctx.broken.append(('correspondence:harness-run-faults', err))
    for o, (mode, want, n), got in zip(fault_ops, fault_ref, fl):
        ctx.cov['evaluations'] += 1
        ctx.count('file-read-%s' % ('short' if mode == 's' else 'eintr'))
        ok = got == want or (mode == 'e' and got == 'FALSE')
        if not ok:
            sig = {'op': 'md5file', 'observed': classify(got, want), 'read': 'short-reads' if mode == 's' else 'interrupted-read'}
            ctx.report('impl-vs-spec', sig, 'md5file with %s: the digest returned is not MD5 of exactly the requested range (%s)' % (sig['read'], sig['observed']),
                       {'op': o, 'expected': want + (' or FALSE' if mode == 'e' else ''), 'actual': got, 'length': n})
    # one process, the same (size, offset, nbytes) on different contents back to back (the parallel runs above spread neighbouring
    # ops over several processes): what an earlier call read must not come back
    seq_ops, seq_ref = [], []
    for sz in (64, 1000, 40000):
        for off, nb in ((0, 0), (1, sz - 2), (0, sz)):
            for _ in range(3):
                d = 'R%d,%d' % (ctx.rng.randrange(1, 1 << 30), sz)
                f = materialise(d)
                seq_ops.append('md5file %s %d %d' % (d, off, nb)); seq_ref.append(hashlib.md5(f[off:off + (nb or len(f) - off)]).hexdigest())
    rc, o, e = ctx.run([exe], inp=('\n'.join(seq_ops) + '\n').encode(), timeout=300)
    sl_seq = o.decode('latin1').splitlines()
    for o_, want, got in zip(seq_ops, seq_ref, sl_seq + ['MISSING'] * len(seq_ops)):
        ctx.cov['evaluations'] += 1
        ctx.count('file-same-range-new-contents')
        if got != want:
            ctx.report('impl-vs-spec', {'op': 'md5file', 'observed': classify(got, want), 'history': 'same-range-new-contents'},
                       'md5file: the digest is not MD5 of the bytes the file holds now (same size, offset and length as the call before, other contents)',
                       {'ops': seq_ops[:seq_ops.index(o_) + 1][-3:], 'expected': want, 'actual': got})
            break
    # the same address and length hashed twice in one function with the bytes changed in between (an optimising caller must not be
    # allowed to reuse the first value), and two threads hashing two files at the same time
    # inputs whose true hash value is 0 (found by search; each is checked against the reference before use): no value is "reserved"
    zero = [('mm32', bytes.fromhex('7a9b47c2')), ('fnv32', bytes.fromhex('01476c10f3')), ('fnv64', bytes.fromhex('9206774ce02f892ad2'))]
    zops = [(o, m) for o, m in zero if int(py_ref(o, m), 16) == 0]
    zl, _ = run_chunks(ctx, [exe], ['%s %s' % (o, hexs(m)) for o, m in zops])
    for (o, m), got in zip(zops, zl):
        ctx.cov['evaluations'] += 1
        ctx.count('hash-value-zero')
        if got != py_ref(o, m):
            ctx.report('impl-vs-spec', {'op': o, 'observed': 'differs-from-published', 'input': 'true-hash-is-zero'},
                       '%s: result is not the published algorithm applied to exactly the given bytes (an input whose hash is 0)' % o,
                       {'op': '%s %s' % (o, hexs(m)), 'expected': py_ref(o, m), 'actual': got})
    tw_ops, tw_ref = [], []
    for i in range(24):
        ln = ctx.rng.choice([1, 3, 4, 8, 15, 16, 30])
        m1 = bytes(ctx.rng.randrange(256) for _ in range(ln)); m2 = bytes(ctx.rng.randrange(256) for _ in range(ln))
        tw_ops.append('twice %s %s' % (hexs(m1), hexs(m2)))
        tw_ref.append(' '.join(py_ref(o, m) for m in (m1, m2) for o in ('fnv32', 'fnv64', 'mm32')))
    tw_ops.append('md5par %d' % (60 if ctx.tier == 'quick' else 600)); tw_ref.append('OK')
    rc, o, e = ctx.run([exe], inp=('\n'.join(tw_ops) + '\n').encode(), timeout=600)
    tl = o.decode('latin1').splitlines()
    for o_, want, got in zip(tw_ops, tw_ref, tl + ['MISSING'] * len(tw_ops)):
        ctx.cov['evaluations'] += 1
        ctx.count('twice-same-address' if o_.startswith('twice') else 'file-two-threads')
        if got != want:
            if o_.startswith('twice'):
                ctx.report('impl-vs-spec', {'op': 'fnv/mm32', 'observed': 'stale-value-for-same-address'},
                           'hashing the same address and length again after the bytes were changed in place does not give the hash of the new bytes',
                           {'op': o_, 'expected': want, 'actual': got})
            else:
                ctx.report('schedule', {'op': 'md5file', 'observed': 'digest-differs-under-concurrent-calls'},
                           'qhashmd5_file from two threads at the same time: a digest differs from the one computed alone', {'op': o_, 'actual': got})
    nper = len(xs) * len(OPS)
    for k in (min(102, len(ops) - 1), min(nper // 3 + 4, len(ops) - 1), max(nper - 12, 0), len(ops) - 7):
        ctx.sample({'op': ops[k][:120], 'impl': il[k], 'model': ml[k], 'spec': spec.get(k)})
    ctx.cov['correspondence_mismatches'] = corr_bad
    ctx.cov['spec_evaluations'] = len(sidx)
    ctx.cov['placements_per_input'] = 'each input hashed 6 times by the harness: exact buffer ending at a guard page, buffer starting after a guard page, offsets 1 and 11 from a 16-aligned address with 0x00 and with 0xFF junk around; one observation only if all six agree'
    try:
        ctx.cov['gcov'] = dict(gcov_funcs(ctx, 'h_hashfn', 'utilities/qhash.c', FUNCS), **gcov_funcs(ctx, 'h_hashfn', 'internal/md5/md5c.c', FUNCS))
    except Exception as e:
        ctx.cov['gcov'] = 'unavailable: %s' % e
    ctx.assumptions += ['little-endian x86-64: a uint32_t/uint64_t load through a casted pointer and Encode/Decode=memcpy give the little-endian value of the bytes; alignment of those loads is not modelled',
                        'qhashmd5: nbytes + 63 < 2^32 (unsigned int cast and the i + 63 < inputLen loop test); murmur: nbytes < 2^31 (int nblocks, nblocks * 4 / 16 in int)',
                        'qhashmd5_file: regular file that does not change while it is read; read() returns the requested count while bytes remain',
                        'gcc: the __GNUC__ branch (shift-add) of the FNV multiplication is the one compiled and modelled; the #else multiplier is proved equal to it']
    ctx.finish('each input is hashed by the implementation (6 placements), by the extracted buffer-level model on a buffer of exactly the input bytes (equal?), by the extracted '
               'published-algorithm specs for inputs up to %d bytes and by independent Python references for every size (equal? spec == reference?); lengths 0..600 x {random, zeros, 0xFF, embedded NULs} x 5 functions, '
               'seeded random sizes up to %s, qhashmd5_file on %d (file, offset, nbytes) triples; distinct_nontrivial = distinct (function, length, class) and file triples' % (
                   spec_limit, '100 KB' if ctx.tier == 'quick' else '1 MiB', len(fops)))
