# C11 - containers are memory-safe and leak-free for every operation history.
#   obligations    : Properties_C11.v (ledger: legal frees/copies for every history and oracle, nothing owned after the destructor)
#   monitor        : harness/h_api.c (--wrap): per call - frees of non-live / foreign / returned blocks, copies outside live blocks, overlapping memcpy,
#                    reachable set = live set (no leak, no dangling), census after free(); thorough: the same under ASan+UBSan+LSan
#   correspondence : recorded events vs extracted scripts
from alloccommon import *


def run(ctx, replay=None):
    quick = ctx.tier == 'quick'
    exe = prepare(ctx, ['Properties_C11'], 'h_api', CORE_SRCS, ['h_api.c'], wrap=WRAP, cov=True)
    if exe is None:
        ctx.finish('memory safety / leak freedom: ledger proofs + wrapped and sanitizer runs')
    if replay:
        globals()['replay_fn'](ctx, exe, replay, 'C11')
        ctx.finish('replay')
    rng = ctx.rng
    H = all_hists(rng, quick) + random_hists(rng, 600 if quick else 4000, 80 if quick else 200)
    good, sizes = evaluate(ctx, exe, H, 'C11')
    inj = []
    for h, recs in good:
        if h.label.startswith('random'):
            g = rand_inject(rng, h, recs)
            if g:
                inj.append(g)
        else:
            ti = h.target_index()
            if ti < len(recs) and recs[ti].get('nreq'):
                v = inject_variants(h, recs[ti]['nreq'])
                inj += v if not quick else rng.sample(v, min(2, len(v)))
    gi, _ = evaluate(ctx, exe, inj, 'C11')            # "whatever happened before": histories containing failed calls
    ctx.count('histories-with-injected-failure', len(gi))
    for h, recs in good[:: max(1, len(good) // 4)]:
        sample_hist(ctx, h, recs)
    if True:
        # quick tier: the sanitizer build runs the histories that hand the container's own pointers back to it (reads of freed
        # memory that are not copies are invisible to the wrapped allocator) and a sample of the rest; thorough: everything
        exa, msg = ctx.cc('h_api_asan', CORE_SRCS, ['h_api.c'], wrap=WRAP, san='asan', cflags=('-DQV_ASAN',))
        if exa is None:
            ctx.broken.append(('obligation:build-asan', msg))
        else:
            if quick:
                sel = [h for h in H if str(h.target).startswith(('putself', 'removeself', 'addself')) or 'walk-remove-walk' in h.label] + H[::25] + inj[::10]
            else:
                sel = H + inj[::2]
            res, found = run_asan(ctx, exa, sel, 'C11')
            ctx.count('asan-histories', len(res))
            for h, kind, err, _ in found:
                ctx.report('impl-vs-property', {'container': h.typ, 'observed': 'sanitizer', 'kind': kind.split(':')[-1].strip()}, 'sanitizer report: ' + kind, {'ops': h.lines(), 'stderr': err})
            for h, recs in res:
                for pids, sg, title, i in monitor(h, recs):
                    if 'C11' in pids:
                        ctx.report('impl-vs-property', {k: v for k, v in sg.items() if k not in ('alloc', 'expected')}, title + ' (asan build)', {'ops': h.lines(), 'failing_line': i})
    import harrcommon
    harrcommon.harr_region_engine(ctx, 40 if quick else 300, ('crash', 'timeout'), 'region between inaccessible pages')
    ctx.finish('memory safety and leak freedom: ledger theorems for every history and oracle; tie = event correspondence with the extracted scripts; wrapped-allocator '
               'monitors on corpus + random histories (with and without failed calls); ASan+UBSan+LSan build as failing-input search in the thorough tier',
               extra_cov={'gcov_anchor_functions': gcov_report(ctx, 'h_api'),
                          'not_exhibited_by_the_model': 'byte ranges and index arithmetic of the copies, uninitialised reads, alignment, signed overflow: searched by the sanitizer '
                                                        'build only; static hash table region: C07'})


replay_fn = replay
