# C10 — qvector is an exact array of fixed-size elements under every growth policy.
# Lockstep run of implementation / extracted model (VectorModel.vstep) / extracted specification (VectorSpec.vsstep):
#   monitor        : implementation vs specification (observation, num, objsize, the first num*objsize bytes of data)
#   correspondence : implementation vs model (same line, including max)
import itertools
from vlib import *

AREA = 'vec'
POLICIES = {'exact': 8, 'linear': 4, 'double': 2}
INDEXED = ['addat', 'getat', 'setat', 'popat', 'removeat']
ANCHOR_FUNCS = ['qvector', 'qvector_addat', 'qvector_addfirst', 'qvector_addlast', 'qvector_getat', 'qvector_setat', 'qvector_popat',
                'qvector_removeat', 'qvector_resize', 'qvector_toarray', 'qvector_reverse', 'qvector_getnext', 'qvector_clear',
                'qvector_size', 'get_at', 'remove_at']


def elem(os_, tag):
    """a recognisable element of os_ bytes: tag in the first byte(s), then a counter pattern"""
    return bytes(((tag * 37 + 11 + j * 5) ^ (0x80 if j % 3 == 2 else 0)) & 0xff for j in range(os_))


def relem(rng, os_):
    r = rng.random()
    if r < 0.1:
        return bytes(os_)
    if r < 0.2:
        return b'\xff' * os_
    return bytes(rng.randrange(256) for _ in range(os_))


# ---------------------------------------------------------------- generators
def sweep(quick):
    """bounded-exhaustive: every (n <= 6, index in [-n-2, n+2]) x op x policy x objsize in {1,3,8} x initial capacity 0..3"""
    hists = []
    for opts in (8, 4, 2, 0):
        for os_ in (1, 3, 8):
            for cap in range(4):
                for n in range(7):
                    for slack in ((0,) if quick else (0, 1)):
                        pre = ['new %d %d %d' % (cap, os_, opts)] + ['addlast ' + hexs(elem(os_, k)) for k in range(n + slack)]
                        pre += ['removelast'] * slack
                        x, y = hexs(elem(os_, 100)), hexs(elem(os_, 101))
                        tail = ['toarray', 'size']
                        for op in INDEXED:
                            for idx in range(-n - 2, n + 3):
                                arg = (' ' + x) if op in ('addat', 'setat') else ''
                                hists.append(pre + ['%s %d%s' % (op, idx, arg)] + tail)
                        for op in ('addfirst ' + x, 'addlast ' + x, 'getfirst', 'getlast', 'setfirst ' + x, 'setlast ' + x, 'popfirst', 'poplast',
                                   'removefirst', 'removelast', 'reverse', 'clear', 'addat 0 NULL'):
                            hists.append(pre + [op] + tail + ['addlast ' + y, 'walk 0 %d' % (n + 3)])
                        for st in range(-1, n + 2):
                            hists.append(pre + ['walk %d %d' % (st, k) for k in (0, 1, n + 2)] + ['walkip %d %d' % (st, n + 2), 'walkmix %d %d' % (st, n + 2)])
                        for k in range(0, n + 3):
                            hists.append(pre + ['resize %d' % k, 'toarray', 'addlast ' + x, 'getat -1', 'addfirst ' + y, 'getat 0', 'toarray',
                                                'walk 0 %d' % (n + 3), 'reverse', 'removeat 0', 'toarray'])
    return hists


def seq_exhaustive(L, oss=(2,), caps=(0, 1)):
    """every op sequence of length <= L over a small alphabet, from the empty vector, for each policy"""
    hists = []
    for opts in (8, 4, 2):
        for os_ in oss:
            a, b, c = hexs(elem(os_, 1)), hexs(elem(os_, 2)), hexs(elem(os_, 3))
            alpha = ['addfirst ' + a, 'addlast ' + b, 'addat 1 ' + c, 'addat -1 ' + a, 'removeat 0', 'removeat -1', 'popat 1', 'resize 0', 'resize 1',
                     'resize 3', 'reverse', 'clear', 'setat -1 ' + c, 'removeat 1']
            for cap in caps:
                for l in range(1, L + 1):
                    for seq in itertools.product(alpha, repeat=l):
                        hists.append(['new %d %d %d' % (cap, os_, opts)] + list(seq) + ['toarray'])
    return hists


def rand_history(rng, nops, big=False):
    os_ = rng.choice([1, 1, 2, 3, 4, 7, 8, 8, 9, 16, 31, 63, 64, 65, 255, 256, 257, 300, rng.randrange(1, 65)])
    cap = rng.choice([0, 0, 1, 2, 3, rng.randrange(0, 21)])
    opts = rng.choice([8, 4, 2, 8, 4, 2, 0, 1, rng.randrange(16)])
    ops = ['new %d %d %d' % (cap, os_, opts)]
    n = 0                                   # expected number of elements (only used to aim the indexes)
    kinds = ['addat', 'addfirst', 'addlast', 'getat', 'getfirst', 'getlast', 'setat', 'setfirst', 'setlast', 'popat', 'popfirst', 'poplast',
             'removeat', 'removefirst', 'removelast', 'size', 'resize', 'clear', 'reverse', 'toarray', 'walk']
    w = [14, 5, 10, 8, 2, 2, 6, 1, 1, 6, 2, 2, 7, 2, 2, 2, 3, 0.6, 4, 3, 3]
    if big:
        w = [10, 4, 30, 6, 1, 1, 4, 1, 1, 3, 1, 1, 4, 1, 1, 1, 1.5, 0.1, 2, 1, 1]
    for _ in range(nops):
        k = rng.choices(kinds, weights=w)[0]

        def idx():
            r = rng.random()
            if r < 0.7:
                return rng.randrange(-n - 2, n + 3)
            if r < 0.9:
                return rng.choice([0, -1, n, n - 1, -n, -n - 1, n + 1])
            return rng.choice([2147483647, -2147483648, -2147483647, 2147483646, 65536, -65536, n + 1000, -n - 1000])
        if k == 'addat' and n > 0 and rng.random() < 0.15:
            # the new element is one of the vector's own, handed in through the pointer getat(j, newmem=false) returned
            i, j = rng.choice([0, n, n // 2, -1, rng.randrange(-n, n + 1)]), rng.randrange(-n, n)
            ops.append('addself %d %d' % (i, j))
            p = i + n if i < 0 else i
            if 0 <= p <= n:
                n += 1
        elif k == 'addat':
            i = idx()
            d = 'NULL' if rng.random() < 0.03 else hexs(relem(rng, os_))
            ops.append('addat %d %s' % (i, d))
            p = i + n if i < 0 else i
            if d != 'NULL' and 0 <= p <= n:
                n += 1
        elif k in ('addfirst', 'addlast'):
            ops.append('%s %s' % (k, hexs(relem(rng, os_))))
            n += 1
        elif k in ('getat', 'setat', 'popat', 'removeat'):
            i = idx()
            ops.append('%s %d%s' % (k, i, (' ' + hexs(relem(rng, os_))) if k == 'setat' else ''))
            p = i + n if i < 0 else i
            if k in ('popat', 'removeat') and 0 <= p < n:
                n -= 1
        elif k in ('setfirst', 'setlast'):
            ops.append('%s %s' % (k, hexs(relem(rng, os_))))
        elif k in ('popfirst', 'poplast', 'removefirst', 'removelast'):
            ops.append(k)
            if n > 0:
                n -= 1
        elif k == 'resize':
            m = rng.choice([0, 1, n, n, max(0, n - 1), n + 1, rng.randrange(0, n + 4), rng.randrange(0, 2 * n + 8)])
            ops.append('resize %d' % m)
            n = min(n, m)
        elif k == 'clear':
            ops.append('clear')
            n = 0
        elif k == 'walk':
            ops.append('%s %d %d' % (rng.choice(['walk', 'walk', 'walkip', 'walkmix']), rng.choice([0, 0, 0, 1, -1, n, n - 1, n + 1, rng.randrange(-2, n + 3)]), rng.choice([0, 1, 2, n, n + 2, n + 2])))
        else:
            ops.append(k)
    ops += ['toarray', 'walk 0 %d' % (n + 2)]
    return ops


def edge_stream(rng):
    """constructor argument checks, NULL data, extreme indexes, capacities around full"""
    hists = []
    for opts in range(16):
        for cap in (0, 1, 2):
            x = hexs(elem(2, 9))
            hists.append(['new %d 2 %d' % (cap, opts)] + ['addlast ' + x] * 5 + ['toarray'])
    for cap in (0, 1, 5):
        hists.append(['new %d 0 8' % cap, 'size', 'new %d 1 8' % cap, 'size', 'addat 0 NULL', 'addlast 07', 'addat 0 NULL', 'addat 7 NULL', 'toarray'])
    for os_ in (1, 5, 64):
        for opts in (8, 4, 2):
            x = hexs(elem(os_, 3))
            big = [2147483647, -2147483648, -2147483647, 2147483646, 4096, -4096]
            h = ['new 2 %d %d' % (os_, opts)]
            for n in range(4):
                for b in big:
                    h += ['addat %d %s' % (b, x), 'getat %d' % b, 'setat %d %s' % (b, x), 'popat %d' % b, 'removeat %d' % b, 'walk %d 2' % b]
                h += ['addlast ' + hexs(elem(os_, 20 + n)), 'toarray']
            hists.append(h)
    # elements that share a long prefix with the stored one and differ only behind it (sizes around 8, 64 and 256 bytes): set, get, reverse
    for os_ in (2, 8, 9, 12, 16, 17, 63, 64, 65, 255, 256, 257, 300, 513):
        for opts in (8, 2):
            base = elem(os_, 5)
            vars_ = [base[:-1] + bytes([base[-1] ^ 0x5a]), base[:os_ // 2] + bytes(b ^ 0xff for b in base[os_ // 2:]), base[:8] + bytes(b ^ 0x33 for b in base[8:])]
            h = ['new 2 %d %d' % (os_, opts)] + ['addlast ' + hexs(base)] * 3 + ['addlast ' + hexs(elem(os_, 6))]
            for i, v in enumerate(vars_):
                h += ['setat %d %s' % (i - 2, hexs(v)), 'getat %d' % (i - 2), 'toarray']
            h += ['setfirst ' + hexs(vars_[0]), 'setlast ' + hexs(vars_[1]), 'toarray', 'reverse', 'toarray', 'getat 0', 'getat -1', 'reverse', 'toarray', 'walk 0 9']
            hists.append(h)
    # a vector that has been large, cleared and used again (capacities beyond 4 KiB and beyond 64 KiB in bytes)
    for (os_, n) in ((1, 4200), (8, 600), (64, 70), (300, 20)):
        for opts in (8, 2):
            h = ['new 0 %d %d' % (os_, opts)] + ['addlast ' + hexs(elem(os_, k % 200)) for k in range(n)]
            h += ['size', 'clear', 'size', 'addlast ' + hexs(elem(os_, 201)), 'addfirst ' + hexs(elem(os_, 202)), 'getat 0', 'getat -1', 'toarray', 'clear', 'toarray',
                  'resize 0', 'addlast ' + hexs(elem(os_, 203)), 'toarray']
            hists.append(h)
    # explicit resize to every capacity around num, including zero, then continue to use the vector
    for opts in (8, 4, 2):
        for os_ in (1, 4):
            for n in range(5):
                for m in range(0, n + 3):
                    h = ['new %d %d %d' % (rng.randrange(4), os_, opts)] + ['addfirst ' + hexs(elem(os_, k)) for k in range(n)]
                    h += ['resize %d' % m, 'size', 'toarray', 'resize 0', 'size', 'toarray', 'getfirst', 'poplast', 'removefirst', 'reverse', 'walk 0 2']
                    h += ['addlast ' + hexs(elem(os_, 50 + k)) for k in range(3)] + ['getat -1', 'getat 0', 'toarray', 'resize 0', 'addat 0 ' + hexs(elem(os_, 77)), 'toarray']
                    hists.append(h)
    return hists


# ---------------------------------------------------------------- monitor
def split_line(l):
    if ' | ' in l:
        a, b = l.split(' | ', 1)
        return a, b
    if l.endswith(' |'):
        return l[:-2], ''
    return l, None


def monitor(opline, impl, spec, os_):
    """Property monitor: the implementation's observation and contents against the specification's. Signature dict or None."""
    kind = opline.split()[0]
    if impl in ('DEAD', 'MISSING', 'NOVEC'):
        return None if spec in ('S ' + impl, impl, 'S DEAD') or impl != 'NOVEC' else {'op': kind, 'observed': 'constructor-refused'}
    if impl.split(' ')[0] in ('CRASH', 'TIMEOUT'):
        return {'op': kind, 'observed': impl.lower().replace(' ', '-')}
    iobs, istate = split_line(impl)
    sobs, selems = split_line(spec[2:] if spec.startswith('S ') else spec)
    if ' UB=' in iobs:
        return {'op': kind, 'observed': iobs.split(' UB=')[1]}
    if iobs != sobs:
        if iobs.startswith('refused') and not sobs.startswith('refused'):
            return {'op': kind, 'observed': 'refused-valid'}
        if sobs.startswith('refused') and not iobs.startswith('refused'):
            return {'op': kind, 'observed': 'accepted-invalid'}
        if iobs.startswith('refused'):
            return {'op': kind, 'observed': 'wrong-errno'}
        return {'op': kind, 'observed': 'wrong-result'}
    if istate is None:
        return None if selems is None else {'op': kind, 'observed': 'no-state'}
    m = re.match(r'num=(\d+) max=(\d+) objsize=(\d+) data=(\S+)', istate)
    if not m:
        return {'op': kind, 'observed': 'no-state'}
    num, mx, osz, data = int(m.group(1)), int(m.group(2)), int(m.group(3)), m.group(4)
    el = [x for x in (selems or '').split(',') if x]
    if osz != os_:
        return {'op': kind, 'observed': 'objsize-changed'}
    if num != len(el):
        return {'op': kind, 'observed': 'wrong-size'}
    if data != (''.join(el) if el else '-'):
        return {'op': kind, 'observed': 'wrong-contents'}
    if mx < num or (kind == 'resize' and iobs == 'true' and mx != int(opline.split()[1])):
        return {'op': kind, 'observed': 'wrong-capacity'}
    return None


def hist_os(ops, upto):
    os_ = None
    for o in ops[:upto + 1]:
        p = o.split()
        if p[0] == 'new':
            os_ = int(p[2])
    return os_


def run_all(ctx, exe, data):
    rc1, o1, e1 = ctx.run([exe], inp=data, timeout=1800)
    rc2, o2, e2 = ctx.driver([AREA], inp=data, timeout=1800)
    il = o1.decode('latin1').splitlines()
    dl = o2.decode('latin1').splitlines()
    return rc1, rc2, il, dl[0::2], dl[1::2], e1, e2


def run_histories(ctx, exe, histories, label):
    """histories: lists of op lines, each starting with `new`; one output line per op line. Returns #model mismatches."""
    lines, index = [], []
    for hi, ops in enumerate(histories):
        for oi, o in enumerate(ops):
            lines.append(o)
            index.append((hi, oi))
    rc1, rc2, il, ml, sl, e1, e2 = run_all(ctx, exe, ('\n'.join(lines) + '\n').encode())
    if rc1 != 0:
        ctx.broken.append(('correspondence:%s-harness' % label, 'harness exit %s: %s' % (rc1, e1.decode('latin1')[-400:])))
    if rc2 != 0:
        ctx.broken.append(('correspondence:%s-driver' % label, 'driver exit %s: %s' % (rc2, e2.decode('latin1')[-400:])))
    nbad = 0
    failed, diverged = set(), set()
    prevmax = {}
    cur_os = None
    for n, (hi, oi) in enumerate(index):
        a = il[n] if n < len(il) else 'MISSING'
        m = ml[n][2:] if n < len(ml) else 'MISSING'
        s = sl[n] if n < len(sl) else 'MISSING'
        ops = histories[hi]
        p = ops[oi].split()
        if p[0] == 'new':
            cur_os = int(p[2])
        ctx.cov['evaluations'] += 1
        ctx.count(label + ':' + p[0])
        if hi in failed:
            continue
        iob = a.split(' | ')[0].split(' ')[0]
        ctx.count('outcome:' + p[0] + ':' + (iob if iob in ('true', 'refused', 'elem', 'array', 'walk', 'ok') else 'value'))
        if ' | ' in a and oi > 0 and hi not in diverged:
            ctx.distinct.add(a.split(' | ')[1])
        sig = monitor(ops[oi], a, s, cur_os)
        # "refused without any effect" includes the capacity and with it the element buffer (theorem C10_refused_no_effect is about
        # the whole state): a refused operation must leave max where the previous line of the same history showed it
        mm = re.search(r' \| num=\d+ max=(\d+) ', a + ' ')
        if sig is None and mm and a.startswith('refused') and oi > 0 and prevmax.get(hi) is not None and int(mm.group(1)) != prevmax[hi]:
            sig = {'op': p[0], 'observed': 'refused-but-capacity-changed'}
        prevmax[hi] = int(mm.group(1)) if mm else None
        if sig is not None:
            failed.add(hi)
            small = shrink(ctx, exe, ops[:oi + 1], sig)
            if small != ops[:oi + 1]:                      # show the lines of the shrunk history, not of the original one
                _, _, il2, ml2, sl2, _, _ = run_all(ctx, exe, ('\n'.join(small) + '\n').encode())
                if len(il2) >= len(small) and len(sl2) >= len(small):
                    a, m, s = il2[len(small) - 1], ml2[len(small) - 1][2:], sl2[len(small) - 1]
            ctx.report('impl-vs-spec', sig, 'qvector: %s %s' % (sig['op'], sig['observed']),
                       {'ops': small, 'failing_op': small[-1] if small else ops[oi], 'impl': a[:600], 'spec': s[:600], 'model': m[:600]})
            continue
        if a != m and hi not in diverged:
            nbad += 1
            diverged.add(hi)
            if nbad <= 3:
                ctx.broken.append(('correspondence:%s' % label, 'history %d op %d `%s`:\n impl : %s\n model: %s\n(prefix: %s)' % (
                    hi, oi, ops[oi], a[:500], m[:500], ' ; '.join(ops[:oi][-14:]))))
    if histories:
        ops = histories[len(histories) // 2]
        ctx.sample({'history': label, 'ops': ops[:14], 'impl_last_line': il[-1][:300] if il else ''})
    return nbad


def first_failure(ctx, exe, cand, sig):
    rc1, rc2, il, ml, sl, _, _ = run_all(ctx, exe, ('\n'.join(cand) + '\n').encode())
    cur = None
    for i, o in enumerate(cand):
        if o.split()[0] == 'new':
            cur = int(o.split()[2])
        a = il[i] if i < len(il) else 'MISSING'
        s = sl[i] if i < len(sl) else 'MISSING'
        if monitor(o, a, s, cur) == sig:
            return i
    return None


def shrink(ctx, exe, ops, sig):
    """Delta debugging: remove ops (never the leading `new`) while the same signature is still produced."""
    head, cur = ops[:1], list(ops[1:])
    if len(cur) > 400:
        return ops
    n, budget = 2, 150
    while len(cur) >= 2 and budget > 0:
        chunk = max(1, len(cur) // n)
        removed = False
        for start in range(0, len(cur) - 1, chunk):
            cand = cur[:start] + cur[start + chunk:]
            budget -= 1
            if not cand:
                continue
            r = first_failure(ctx, exe, head + cand, sig)
            if r is not None and r >= 1:
                cur = cand[:r]
                n = max(n - 1, 2)
                removed = True
                break
            if budget <= 0:
                break
        if not removed:
            if chunk == 1:
                break
            n = min(n * 2, len(cur))
    return head + cur


def bigshift(ctx, exe):
    """remove the first of 2^25+2 elements of 64 bytes (2 GiB to shift: beyond the range of an int byte count)"""
    try:
        avail = int(re.search(r'MemAvailable:\s+(\d+)', open('/proc/meminfo').read()).group(1)) // 1024
    except Exception:
        avail = 0
    if avail < 12000:
        ctx.notes.append('bigshift skipped: %d MiB available' % avail)
        return
    rc, o, e = ctx.run([exe, 'bigshift', str((1 << 25) + 2), '64'], timeout=600)
    out = o.decode('latin1').strip()
    ctx.cov['evaluations'] += 1
    ctx.count('bigshift:' + out.split(' ')[0] if out else 'bigshift:none')
    if out.startswith('skipped'):
        ctx.notes.append('bigshift: ' + out)
        return
    if out != 'ok':
        ctx.report('impl-vs-spec', {'op': 'removefirst', 'observed': 'big-shift-' + (out.split(' ')[0] if out else 'crash')},
                   'qvector: removefirst on 2 GiB of elements does not shift the remainder (%s, exit %s)' % (out, rc),
                   {'ops': ['bigshift %d 64' % ((1 << 25) + 2)], 'impl': out, 'spec': 'ok'})


# ---------------------------------------------------------------- entry
def run(ctx, replay=None):
    exe = prepare(ctx, ['Properties_C10'] if os.path.exists(os.path.join(COQ, 'Properties_C10.v')) else [], 'h_vec', CORE_SRCS, ['h_vec.c'],
                  wrap=('memcpy',), cov=True)
    if exe is None:
        ctx.finish('build failed')
    rng = ctx.rng
    quick = ctx.tier == 'quick'
    if replay:
        d = json.load(open(replay))
        ops = d.get('replay', {}).get('ops')
        if not ops:
            print(json.dumps(d, indent=1)[:3000])
            print('VIOLATION property=%s replay=%s no-failing-input-found' % (ctx.pid, replay))
            sys.exit(1)
        if ops[0].startswith('bigshift'):
            bigshift(ctx, exe)
        else:
            run_histories(ctx, exe, [ops], 'replay')
        if ctx.violations or ctx.broken:
            for _, _, rp in ctx.violations:
                print('VIOLATION property=%s replay=%s' % (ctx.pid, rp))
            for k, dd in ctx.broken:
                print('BROKEN', k, dd)
            sys.exit(1)
        print('replay: implementation agrees with model and specification on this history')
        sys.exit(0)
    nb = 0
    sw = sweep(quick)
    nb += run_histories(ctx, exe, sw, 'sweep')
    sq = seq_exhaustive(3 if quick else 4, oss=(2,) if quick else (1, 5), caps=(0, 1) if quick else (0, 1, 2))
    nb += run_histories(ctx, exe, sq, 'sequences')
    ed = edge_stream(rng)
    nb += run_histories(ctx, exe, ed, 'edge')
    rh = [rand_history(rng, rng.choice([40, 120, 250])) for _ in range(150 if quick else 1500)]
    rh += [rand_history(rng, 1500 if quick else 4000, big=True) for _ in range(2 if quick else 10)]
    nb += run_histories(ctx, exe, rh, 'random')
    if not quick:
        bigshift(ctx, exe)
    ctx.cov['exhaustive'] = False
    ctx.cov['exhaustive_note'] = ('%d sweep histories: every (n<=6, index in [-n-2,n+2]) x indexed op x policy x objsize {1,3,8} x initial capacity 0..3, every '
                                  'resize 0..n+2 followed by further use; %d histories = all op sequences of length <= %d over a 14-op alphabet per policy; '
                                  '%d edge histories; %d random histories with objsize up to 64' % (len(sw), len(sq), 3 if quick else 4, len(ed), len(rh)))
    ctx.cov['correspondence_mismatches'] = nb
    ctx.cov['traces_validated_against_impl'] = len(sw) + len(sq) + len(ed) + len(rh)
    try:
        ctx.cov['gcov_qvector'] = ctx.gcov('h_vec', 'containers/qvector.c', ANCHOR_FUNCS)
    except Exception as ex:
        ctx.cov['gcov_qvector'] = 'unavailable: %s' % ex
    ctx.assumptions += ['elements are handed in as exact-size heap blocks, scribbled and freed after each call; all reads use newmem=true',
                        'bytes of the data block beyond num*objsize are indeterminate and are never compared',
                        'allocation failure is not injected here (C15); capacities stay small enough for malloc to succeed',
                        'theorems assume fewer than 2^31 elements (int indexes) and max*objsize representable in size_t']
    ctx.finish('bounded-exhaustive (n, index) sweep x ops x 3 policies x objsize {1,3,8} x capacity 0..3, all short op sequences, constructor/NULL/extreme-index '
               'edge stream, random histories (objsize 1..64, all option words); every op: impl vs extracted spec (observation, num, objsize, first num*objsize '
               'bytes) and impl vs extracted model (same plus max); memcpy calls with overlapping ranges inside the library are flagged through --wrap=memcpy; '
               'distinct_nontrivial = distinct (num,max,objsize,contents) states observed after at least one op')
