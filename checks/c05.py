# C05 — the hash table is an exact map for every history and table range.
# Lockstep run of the implementation (harness/h_hashtbl.c), the extracted model (HashtblModel.hstep, hash function
# instantiated with MurmurHash3_32) and the extracted specification (HashtblSpec.hsstep) on generated histories.
#   impl vs spec  = property monitor (results, size, walks as sets)       -> VIOLATION with the shrunk history
#   impl vs model = correspondence (results + every chain in order, node identities, stored hashes, num)
from vlib import *
import gen_consts

RANGES = [1, 2, 3, 7, 1000, 0]
M32 = 0xffffffff


def murmur3_32(data):
    """qhashmurmur3_32 (seed 0, 0 for the empty string); validated against the C function on every run."""
    n = len(data)
    if n == 0:
        return 0
    c1, c2 = 0xcc9e2d51, 0x1b873593
    h = 0
    nb = n // 4
    for i in range(nb):
        k = int.from_bytes(data[4 * i:4 * i + 4], 'little')
        k = (k * c1) & M32
        k = ((k << 15) | (k >> 17)) & M32
        k = (k * c2) & M32
        h ^= k
        h = ((h << 13) | (h >> 19)) & M32
        h = (h * 5 + 0xe6546b64) & M32
    t = data[4 * nb:]
    k = 0
    if len(t) >= 3:
        k ^= t[2] << 16
    if len(t) >= 2:
        k ^= t[1] << 8
    if len(t) >= 1:
        k ^= t[0]
        k = (k * c1) & M32
        k = ((k << 15) | (k >> 17)) & M32
        k = (k * c2) & M32
        h ^= k
    h ^= n & M32
    h ^= h >> 16
    h = (h * 0x85ebca6b) & M32
    h ^= h >> 13
    h = (h * 0xc2b2ae35) & M32
    h ^= h >> 16
    return h


def _rotl(x, r):
    return ((x << r) | (x >> (32 - r))) & M32


def twins(rng, n):
    """n distinct 8-byte keys without NUL bytes whose 32-bit murmur values are IDENTICAL (constructed: the second block
    is solved for so that the state after two blocks coincides; the block mix is a bijection on 32-bit words)."""
    c1, c2 = 0xcc9e2d51, 0x1b873593
    c1i, c2i = pow(c1, -1, 1 << 32), pow(c2, -1, 1 << 32)

    def mix(k):
        return (_rotl((k * c1) & M32, 15) * c2) & M32

    def unmix(m):
        return (_rotl((m * c2i) & M32, 17) * c1i) & M32

    def h1(k):           # state after the first block
        return (_rotl(mix(k), 13) * 5 + 0xe6546b64) & M32
    while True:
        a = bytes(rng.randrange(1, 256) for _ in range(8))
        ka, kb = int.from_bytes(a[:4], 'little'), int.from_bytes(a[4:], 'little')
        target = h1(ka) ^ mix(kb)           # value that is rotated/multiplied next
        out = [a]
        tries = 0
        while len(out) < n and tries < 4000:
            tries += 1
            p = bytes(rng.randrange(1, 256) for _ in range(4))
            q = unmix(target ^ h1(int.from_bytes(p, 'little'))).to_bytes(4, 'little')
            k = p + q
            if 0 not in q and k not in out:
                out.append(k)
        if len(out) == n and len(set(murmur3_32(k) for k in out)) == 1:
            return out


def cstr(b):
    i = b.find(b'\0')
    return b if i < 0 else b[:i]


def atoll_stops(v):
    """does atoll meet a stopping byte inside the block? (same scan as the model's hatoll_stops)"""
    i = 0
    while i < len(v) and (9 <= v[i] <= 13 or v[i] == 32):
        i += 1
    if i < len(v) and v[i] in (43, 45):
        i += 1
    while i < len(v) and 48 <= v[i] <= 57:
        i += 1
    return i < len(v)


class Colliders:
    """per effective range: candidate keys grouped by slot index (computed with the Python murmur)"""
    def __init__(self, default_range):
        self.default = default_range
        self.groups = {}

    def eff(self, r):
        return max(1, self.default) if r == 0 else r

    def table(self, r):
        R = self.eff(r)
        if R not in self.groups:
            g = {}
            n = max(80, 9 * R)
            for i in range(n):
                k = b'k%04d' % i
                g.setdefault(murmur3_32(k) % R, []).append(k)
            self.groups[R] = g
        return self.groups[R]

    def chain_keys(self, rng, r, n):
        """n keys sharing one slot"""
        g = self.table(r)
        big = [ks for ks in g.values() if len(ks) >= n]
        ks = rng.choice(big)
        return rng.sample(ks, n)

    def other_keys(self, rng, r, n, avoid):
        g = self.table(r)
        pool = [k for ks in g.values() for k in ks if k not in avoid]
        return rng.sample(pool, n)


SPECIAL_KEYS = [b'', b'a', b'ab', b'ab\0cd', b'ac', b'\xff\xfe', b'L' * 300 + b'1', b'L' * 300 + b'2', b'\x01', b'k\x80', b'k\x81']


def rand_val(rng):
    r = rng.random()
    if r < 0.12:
        return b''
    if r < 0.24:
        return bytes([rng.randrange(256)]) + b'\0' + bytes([rng.randrange(256)])
    if r < 0.30:
        return b'\0'
    if r < 0.36:
        return b'\0\0\0'
    if r < 0.42:
        return bytes(rng.randrange(256) for _ in range(rng.choice([255, 256, 1000, 4097])))
    if r < 0.54:
        return rng.choice([b'123\0', b'  -42xyz', b'+7\0', b'\t\n 0012 ', b'-\0', b'99999999999999999999\0', b'-99999999999999999999\0',
                           b'9223372036854775807\0', b'-9223372036854775808\0', b'12', b'', b'abc\0'])
    return bytes(rng.randrange(256) for _ in range(rng.randrange(1, 9)))


def rand_str(rng):
    r = rng.random()
    if r < 0.15:
        return b''
    if r < 0.3:
        return b'ab\0cd'          # putstr stops at the NUL
    return bytes(rng.randrange(1, 256) for _ in range(rng.randrange(1, 12)))


INTS = [0, 1, -1, 9, 10, -10, 99, 100, 2 ** 31 - 1, -2 ** 31, 2 ** 32, 2 ** 63 - 1, -2 ** 63, -2 ** 63 + 1, 10 ** 18, -10 ** 18, 10 ** 18 - 1, 1234567890123456789]

KINDS = ['put', 'putstr', 'putint', 'get', 'getref', 'getstr', 'getint', 'remove', 'clear', 'size', 'walk', 'null']
MIXES = {
    'map': [24, 6, 5, 12, 4, 4, 5, 18, 0.6, 3, 6, 1.5],
    'churn': [30, 3, 3, 4, 1, 1, 2, 30, 0.3, 1, 4, 0.5],
    'walk': [20, 3, 2, 3, 1, 1, 1, 16, 0.8, 2, 40, 0.5],
}


def gen_history(rng, nops, keys, mix):
    shadow = {}
    ops = []
    for _ in range(nops):
        k = rng.choices(KINDS, weights=mix)[0]
        key = rng.choice(keys)
        ck = cstr(key)
        if k == 'put' and rng.random() < 0.04:      # a put that cannot get its memory: refused, nothing changes
            ops.append('puthuge %s' % hexs(key))
        elif k == 'put' and rng.random() < 0.06:
            # the table's own value buffer handed back with a shorter length (records dropped from the end of a stored array)
            v = rand_val(rng)
            if len(v) >= 2:
                n = rng.randrange(1, len(v))
                ops.append('putpre %s %s %d' % (hexs(key), hexs(v), n))
                shadow[ck] = v[:n]
            else:
                ops.append('put %s %s' % (hexs(key), hexs(v)))
                shadow[ck] = v
        elif k == 'put':
            v = rand_val(rng)
            ops.append('%s %s %s' % ('putown' if rng.random() < 0.08 else 'put', hexs(key), hexs(v)))
            shadow[ck] = v
        elif k == 'putstr':
            s = rand_str(rng)
            ops.append('putstr %s %s' % (hexs(key), hexs(s)))
            shadow[ck] = cstr(s) + b'\0'
        elif k == 'putint':
            z = rng.choice(INTS) if rng.random() < 0.7 else rng.randrange(-2 ** 63, 2 ** 63)
            ops.append('putint %s %d' % (hexs(key), z))
            shadow[ck] = str(z).encode() + b'\0'
        elif k in ('get', 'getref', 'getstr'):
            ops.append('%s %s' % (k, hexs(key)))
        elif k == 'getint':
            # atoll on a stored block that contains no stopping byte reads past the block: caller misuse, not generated
            if ck in shadow and not atoll_stops(shadow[ck]):
                ops.append('get %s' % hexs(key))
            else:
                ops.append('getint %s' % hexs(key))
        elif k == 'remove':
            ops.append('remove %s' % hexs(key))
            shadow.pop(ck, None)
        elif k == 'clear':
            ops.append('clear')
            shadow.clear()
        elif k == 'size':
            ops.append('size')
        elif k == 'walk':
            n = rng.choice([0, 1, 2, 3, max(1, len(shadow) - 1), len(shadow), len(shadow) + 1, len(keys) + 3, len(keys) + 3])
            if rng.random() < 0.3:              # the same walk with reads of one key between the steps (reads do not modify the table)
                ops.append('walkget %d %s' % (n, hexs(cstr(key)) or '00'))
            else:
                ops.append('walk %d' % n)
        else:
            ops.append(rng.choice(['putnull ' + hexs(key), 'putstrnull ' + hexs(key), 'putnn 0102', 'getnn', 'removenn']))
    return ops


def directed_removals(rng, col, r):
    """chains of length 4..6 in one slot; every removal position; walks complete, abandoned and restarted"""
    hs = []
    for L in (4, 5, 6):
        ks = col.chain_keys(rng, r, L)
        for pos in range(L):
            ops = ['put %s %s' % (hexs(k), hexs(bytes([i, 0, i]))) for i, k in enumerate(ks)]
            # chain order is the reverse of insertion order: ks[L-1] is the head, ks[0] the tail
            victim = ks[L - 1 - pos]
            ops += ['walk %d' % (L + 2), 'walk 2', 'walk %d' % (L + 2), 'remove ' + hexs(victim), 'size', 'walk %d' % (L + 2)]
            ops += ['get ' + hexs(k) for k in ks]
            # a complete walk with reads of every position of the chain in turn between the steps
            ops += ['walkget %d %s' % (L + 2, hexs(k)) for k in ks if k != victim]
            ops += ['remove ' + hexs(victim), 'put %s %s' % (hexs(victim), hexs(b'again')), 'walk 1', 'walk %d' % (L + 2)]
            # replace in the middle of a chain: the node must stay where it is
            mid = ks[L // 2]
            if mid != victim:
                ops += ['put %s -' % hexs(mid), 'get ' + hexs(mid), 'putstr %s 78' % hexs(mid), 'walk %d' % (L + 2)]
            for k in ks:
                ops += ['remove ' + hexs(k), 'walk %d' % (L + 2)]
            ops += ['size', 'clear', 'walk 1']
            hs.append((['new %d' % r, 'dump 1'], ops))
    return hs


def directed_twins(rng, r):
    """keys with the SAME 32-bit hash: lookups must compare names, removal must unlink only the named key"""
    hs = []
    for L in (2, 3, 4):
        ks = twins(rng, L)
        for pos in range(L):
            ops = ['put %s %02x' % (hexs(k), i + 1) for i, k in enumerate(ks)]
            ops += ['size'] + ['get ' + hexs(k) for k in ks] + ['walk %d' % (L + 1)]
            ops += ['put %s ee' % hexs(ks[pos]), 'size'] + ['get ' + hexs(k) for k in ks]
            ops += ['remove ' + hexs(ks[pos]), 'size'] + ['get ' + hexs(k) for k in ks] + ['walk %d' % (L + 1), 'remove ' + hexs(ks[pos])]
            ops += ['putint %s %d' % (hexs(ks[pos]), -pos), 'getint ' + hexs(ks[pos])] + ['remove ' + hexs(k) for k in ks] + ['size', 'walk 1']
            hs.append((['new %d' % r, 'dump 1'], ops))
    return hs


# names one of which is a proper prefix of the other AND whose 32-bit murmur values are equal (found once by search; checked
# again here with the check's own murmur3_32, so a table whose hash function changed simply does not use them)
PREFIX_TWINS = [(b'k', b'k:11b6a753d'), (b'user', b'user:9c49cbbd'), (b'a1', b'a1:887e2e04'), (b'cfg.x', b'cfg.x:2874888a'),
                (b'cfg.x', b'cfg.x:e32eafc6'), (b'cfg.x:2874888a', b'cfg.x:e32eafc6'), (b'Z', b'Z:8e3958c4')]


def directed_prefix_twins(r):
    """a name and an extension of it with the same hash: equality of names is equality of the whole strings, terminator included"""
    hs = []
    for short, long_ in PREFIX_TWINS:
        if murmur3_32(short) != murmur3_32(long_):
            continue
        for a, b in ((short, long_), (long_, short)):
            ops = ['put %s 0a' % hexs(a), 'get ' + hexs(b), 'getstr ' + hexs(b), 'remove ' + hexs(b), 'size', 'get ' + hexs(a),
                   'put %s 0b0b' % hexs(b), 'size', 'get ' + hexs(a), 'get ' + hexs(b), 'walk 3',
                   'put %s 0c' % hexs(a), 'get ' + hexs(b), 'remove ' + hexs(a), 'get ' + hexs(b), 'size', 'walk 3', 'remove ' + hexs(b), 'size']
            hs.append((['new %d' % r, 'dump 1'], ops))
    return hs


def exhaustive(col, rng, r, K, D):
    """every sequence of D put/remove operations over K keys of one slot, then a complete walk"""
    ks = col.chain_keys(rng, r, K) if K > 0 else twins(rng, -K)
    K = abs(K)
    alpha = ['put %s %02x' % (hexs(k), i + 1) for i, k in enumerate(ks)] + ['remove ' + hexs(k) for k in ks]
    hs = []
    idx = [0] * D
    n = len(alpha)
    total = n ** D
    for c in range(total):
        x = c
        seq = []
        for _ in range(D):
            seq.append(alpha[x % n])
            x //= n
        hs.append((['new %d' % r, 'dump 1'], seq + ['walk %d' % (K + 1)]))
    return hs


def parse_walk(obs):
    p = obs.split(' ')
    lst = [x for x in (p[2].split(',') if len(p) > 2 and p[2] else []) if x]
    return p[1], lst


def monitor(opline, impl, spec):
    """Property monitor: implementation observation vs specification observation. Returns a signature dict or None."""
    kind = opline.split()[0]
    if kind == 'walkget':
        kind = 'walk'
    if impl in ('DEAD', 'MISSING'):
        return None
    if impl in ('CRASH', 'TIMEOUT'):
        return {'op': kind, 'observed': impl.lower()}
    iobs, _, istruct = impl.partition(' | ')
    if not spec.startswith('S ') or spec in ('S UNDEFINED', 'S DEAD', 'S ??'):
        return None
    sobs, _, sstruct = spec[2:].partition(' | ')
    if 'DUMP-' in istruct:
        return {'op': kind, 'observed': 'structure-unreadable'}
    m = re.search(r'INDEP=(\d+)', istruct)
    if m:
        return {'op': kind, 'observed': 'invariant-clause-%s' % m.group(1)}
    if kind == 'walk':
        iend, ilst = parse_walk(iobs)
        sp = sobs.split(' ')
        send, scount = sp[1], int(sp[2])
        sall = [x for x in (sp[3].split(',') if len(sp) > 3 else []) if x]
        if iend not in ('end', 'more'):
            return {'op': 'walk', 'observed': 'end-not-reported-as-ENOENT'}
        if len(set(x.split('=')[0] for x in ilst)) != len(ilst):
            return {'op': 'walk', 'observed': 'key-returned-twice'}
        if any(x not in sall for x in ilst):
            return {'op': 'walk', 'observed': 'foreign-entry-or-wrong-value'}
        if len(ilst) < scount:
            return {'op': 'walk', 'observed': 'missing-keys'}
        if len(ilst) > scount or iend != send:
            return {'op': 'walk', 'observed': 'wrong-end'}
        return None
    if iobs != sobs:
        ic, sc = iobs.split(' ')[0], sobs.split(' ')[0]
        return {'op': kind, 'observed': 'wrong-value' if ic == sc else '%s-instead-of-%s' % (ic, sc)}
    mi = re.search(r'num=(\d+)', istruct)
    ms = re.search(r'n=(\d+)', sstruct)
    if mi and ms and mi.group(1) != ms.group(1):
        return {'op': kind, 'observed': 'num-field-wrong'}
    return None


def chain_position(struct, keyhex):
    """position class of a key inside its chain in a dump: only/head/middle/tail (None if absent or digest dump)"""
    parts = struct.split(' ', 2)
    if len(parts) < 3 or parts[2].startswith('fnv='):
        return None, 0
    for sl in parts[2].split(';'):
        if not sl:
            continue
        ents = sl.split(':', 1)[1].split(',')
        names = [e.split('/')[2].split('=')[0] for e in ents]
        if keyhex in names:
            i = names.index(keyhex)
            if len(names) == 1:
                return 'only', 1
            return ('head' if i == 0 else 'tail' if i == len(names) - 1 else 'middle'), len(names)
    return None, 0


def run_raw(ctx, exe, lines, timeout=1800):
    data = ('\n'.join(lines) + '\n').encode()
    rc1, o1, e1 = ctx.run([exe], inp=data, timeout=timeout)
    rc2, o2, e2 = ctx.driver(['hashtbl'], inp=data, timeout=timeout)
    il = o1.decode('latin1').splitlines()
    dl = o2.decode('latin1').splitlines()
    return rc1, rc2, il, dl[0::2], dl[1::2], e1.decode('latin1')[-400:], e2.decode('latin1')[-400:]


def run_histories(ctx, exe, histories, label):
    lines, index = [], []
    for hi, (hdr, ops) in enumerate(histories):
        lines += hdr
        for oi in range(len(ops)):
            index.append((hi, oi))
        lines += ops
    rc1, rc2, il, ml, sl, e1, e2 = run_raw(ctx, exe, lines)
    if rc1 != 0:
        ctx.broken.append(('correspondence:%s-harness' % label, 'harness exit %s: %s' % (rc1, e1)))
    if rc2 != 0:
        ctx.broken.append(('correspondence:%s-driver' % label, 'driver exit %s: %s' % (rc2, e2)))
    nbad = 0
    failed, diverged = set(), set()
    prev_struct, prev_hi = '', -1
    for n, (hi, oi) in enumerate(index):
        a = il[n] if n < len(il) else 'MISSING'
        m = ml[n][2:] if n < len(ml) else 'MISSING'
        s = sl[n] if n < len(sl) else 'MISSING'
        hdr, ops = histories[hi]
        op = ops[oi]
        kind = op.split(' ', 1)[0]
        if kind == 'walkget':
            kind = 'walk'
        ctx.cov['evaluations'] += 1
        ctx.count(label + ':' + kind)
        if s == 'S UNDEFINED':
            ctx.count('spec-undefined(caller misuse)')
        if hi in failed:
            continue
        struct = a.partition(' | ')[2]
        if struct and hi not in diverged:
            ctx.distinct.add(struct)
        if kind == 'remove' and a.startswith('true') and prev_hi == hi:
            pos, ln = chain_position(prev_struct, hexs(cstr(unhex(op.split(' ')[1]))))
            if pos:
                ctx.count('remove-position:' + pos)
                ctx.count('remove-from-chain-of-length:%s' % (ln if ln < 6 else '6+'))
        if kind == 'walk' and struct and not struct.split(' ', 2)[-1].startswith('fnv='):
            mx = max([len(x.split(',')) for x in struct.split(' ', 2)[2].split(';') if x] or [0])
            ctx.count('walk-over-longest-chain:%s' % (mx if mx < 6 else '6+'))
            ctx.count('walk:' + a.split(' ')[1])
        prev_struct, prev_hi = struct, hi
        sig = monitor(op, a, s)
        if sig is not None:
            failed.add(hi)
            rline = hdr[0] if hdr else 'new 0'
            sig['range'] = 'default' if rline.split()[1] == '0' else 'one' if rline.split()[1] == '1' else 'many'
            sigm = dict(sig)
            small = shrink(ctx, exe, hdr, ops[:oi + 1], sigm)
            ctx.report('impl-vs-spec', sig, 'hash table: %s -> %s (range %s)' % (sig['op'], sig['observed'], rline.split()[1]),
                       {'ops': hdr + small, 'failing_op': small[-1] if small else op, 'impl': a[:600], 'spec': s[:600], 'model': m[:600]})
            continue
        if a != m and hi not in diverged:
            nbad += 1
            diverged.add(hi)
            if nbad <= 3:
                ctx.broken.append(('correspondence:%s' % label, 'history %d op %d `%s`:\n impl : %s\n model: %s\n(prefix: %s)' % (
                    hi, oi, op[:200], a[:500], m[:500], ' ; '.join(x[:60] for x in (hdr + ops[:oi])[-12:]))))
    if histories:
        hdr, ops = histories[len(histories) // 2]
        ctx.sample({'history': label, 'ops': [o[:120] for o in (hdr + ops)[:14]], 'impl_last_line': il[-1][:300] if il else ''})
    return nbad


def shrink(ctx, exe, hdr, ops, sig):
    """Delta-debug a failing history: keep removing ops while the same signature is still produced."""
    want = {k: v for k, v in sig.items() if k != 'range'}

    def fails(cand):
        rc1, rc2, il, ml, sl, _, _ = run_raw(ctx, exe, hdr + cand, timeout=60)
        for i, o in enumerate(cand):
            a = il[i] if i < len(il) else 'MISSING'
            s = sl[i] if i < len(sl) else 'MISSING'
            if monitor(o, a, s) == want:
                return i
        return None
    cur = list(ops)
    if len(cur) > 600:
        return cur
    n = 2
    budget = 150
    while len(cur) >= 2 and budget > 0:
        chunk = max(1, len(cur) // n)
        removed = False
        for start in range(0, len(cur) - 1, chunk):
            cand = cur[:start] + cur[start + chunk:]
            budget -= 1
            if not cand:
                continue
            r = fails(cand)
            if r is not None:
                cur = cand[:r + 1]
                n = max(n - 1, 2)
                removed = True
                break
            if budget <= 0:
                break
        if not removed:
            if chunk == 1:
                break
            n = min(n * 2, len(cur))
    return cur


TEXTS = [b'0', b'7', b'-7', b'+7', b'  42', b'\t\n\v\f\r 42', b'42abc', b'abc', b'', b'-', b'+', b'+-5', b'--5', b'- 5', b'0012', b'00000000000000000000000012',
         b'9223372036854775807', b'9223372036854775808', b'-9223372036854775808', b'-9223372036854775809', b'99999999999999999999999',
         b'-99999999999999999999999', b'18446744073709551616', b'1 2', b'12\x0034', b'\x0b5', b' \x1c5', b'\xa05', b'1e5', b'0x10', b'12:', b'12/']


def text_checks(ctx, exe):
    """tie the model's text conversions (atoll, "%" PRId64) and the three murmur implementations to libc / the C code"""
    rng = ctx.rng
    lines = []
    keys = [bytes(rng.randrange(256) for _ in range(n)) for n in list(range(0, 24)) * 6] + [b'k%04d' % i for i in range(200)] + SPECIAL_KEYS
    keys = [cstr(k) if i % 2 else k for i, k in enumerate(keys)]
    for k in keys:
        lines.append('hash ' + hexs(k))
    texts = list(TEXTS)
    for _ in range(300):
        texts.append(bytes(rng.choice(b' \t+-0123456789999a\n') for _ in range(rng.randrange(0, 26))))
    texts = [cstr(t) for t in texts]
    for t in texts:
        lines.append('atoll ' + hexs(t))
    ints = INTS + [rng.randrange(-2 ** 63, 2 ** 63) for _ in range(200)] + [10 ** i for i in range(19)] + [-10 ** i for i in range(19)] + [10 ** i - 1 for i in range(1, 19)]
    for z in ints:
        lines.append('printd %d' % z)
    rc1, rc2, il, ml, sl, e1, e2 = run_raw(ctx, exe, lines)
    bad = 0
    for i, l in enumerate(lines):
        a = il[i] if i < len(il) else 'MISSING'
        m = ml[i][2:] if i < len(ml) else 'MISSING'
        ctx.cov['evaluations'] += 1
        ctx.count('text:' + l.split()[0])
        exp = None
        if l.startswith('hash '):
            exp = 'hash %d' % murmur3_32(unhex(l.split()[1]))
            if a != exp and bad < 3:
                ctx.broken.append(('correspondence:murmur-python', 'qhashmurmur3_32(%s): C %s, check-side Python %s' % (l.split()[1], a, exp)))
                bad += 1
        if l.startswith('printd '):
            exp = 'printd ' + hexs(str(int(l.split()[1])).encode())
        if a != m:
            bad += 1
            if bad <= 3:
                ctx.broken.append(('correspondence:text', '`%s`: impl %s, model %s' % (l, a, m)))
    return len(keys)


def run(ctx, replay=None):
    funcs = ['qhashtbl', 'qhashtbl_put', 'qhashtbl_putstr', 'qhashtbl_putint', 'qhashtbl_get', 'qhashtbl_getstr', 'qhashtbl_getint',
             'qhashtbl_remove', 'qhashtbl_getnext', 'qhashtbl_size', 'qhashtbl_clear']
    exe = prepare(ctx, ['Properties_C05'] if os.path.exists(os.path.join(COQ, 'Properties_C05.v')) else [], 'h_hashtbl', CORE_SRCS, ['h_hashtbl.c'], cov=True)
    if exe is None:
        ctx.finish('build failed')
    rng = ctx.rng
    quick = ctx.tier == 'quick'
    if replay:
        d = json.load(open(replay))
        ops = d.get('replay', {}).get('ops')
        if not ops:
            print(json.dumps(d, indent=1)[:3000])
            print('VIOLATION property=%s replay=%s no-failing-input-found' % (ctx.pid, replay))
            sys.exit(1)
        hdr = [o for o in ops if o.split()[0] in ('new', 'dump')]
        body = [o for o in ops if o.split()[0] not in ('new', 'dump')]
        run_histories(ctx, exe, [(hdr, body)], 'replay')
        if ctx.violations or ctx.broken or ctx.known_hits:
            for _, _, rp in ctx.violations:
                print('VIOLATION property=%s replay=%s' % (ctx.pid, rp))
            for k, dd in ctx.broken:
                print('BROKEN', k, dd)
            sys.exit(1 if (ctx.violations or ctx.broken) else 0)
        print('replay: implementation agrees with model and specification on this history')
        sys.exit(0)

    default_range = gen_consts.read_define(REPO, 'src/containers/qhashtbl.c', 'DEFAULT_INDEX_RANGE')
    ranges = list(RANGES)
    if default_range < 1:
        # qhashtbl(0, ...) allocates no slots and divides by zero: the histories for range 0 will show it
        ctx.broken.append(('obligation:default-range', 'DEFAULT_INDEX_RANGE is %d in the source: the constructor needs a positive default (C05_default_range)' % default_range))
    col = Colliders(default_range)
    tph = [time.time()]
    ctx.cov['phase_wall_s'] = {}

    def phase(name):
        ctx.cov['phase_wall_s'][name] = round(time.time() - tph[0], 1)
        tph[0] = time.time()
    phase('build+proofs')
    nhashed = text_checks(ctx, exe)
    nb = 0
    # directed: every removal position in chains of length 4..6, for every range
    hs = []
    for r in ranges:
        hs += directed_removals(rng, col, r)
        hs += directed_twins(rng, r)
        hs += directed_prefix_twins(r)
    nb += run_histories(ctx, exe, hs, 'directed')
    phase('directed')
    # random histories: a chain of >= 5 colliding keys + keys elsewhere + special keys
    hists = []
    nh = 40 if quick else 250
    for r in ranges:
        for i in range(nh):
            nchain = rng.choice([5, 6, 8])
            keys = col.chain_keys(rng, r, nchain)
            if col.eff(r) > 1:
                keys += col.other_keys(rng, r, rng.choice([0, 2, 5]), keys)
            if i % 2 == 1:
                keys += twins(rng, rng.choice([2, 3, 4]))
            if i % 3 == 0:
                keys += rng.sample(SPECIAL_KEYS, rng.choice([3, 6, len(SPECIAL_KEYS)]))
            mix = MIXES[rng.choice(['map', 'map', 'churn', 'walk'])]
            hists.append((['new %d' % r, 'dump 1'], gen_history(rng, 160 if quick else 300, keys, mix)))
    nb += run_histories(ctx, exe, hists, 'random')
    phase('random')
    if not quick:
        # sanitizer build (search for a failing input only): the same random histories under ASan/UBSan
        aexe, msg = ctx.cc('h_hashtbl_asan', CORE_SRCS, ['h_hashtbl.c'], san='asan')
        if aexe is None:
            ctx.notes.append('sanitizer build unavailable: ' + msg[-300:])
        else:
            env = dict(os.environ, ASAN_OPTIONS='detect_leaks=1:abort_on_error=0:exitcode=77:allocator_may_return_null=1', UBSAN_OPTIONS='halt_on_error=1:exitcode=77')
            for hi, (hdr, ops) in enumerate(hs + hists):
                if hi % 4:
                    continue
                rc, o, e = ctx.run([aexe], inp=('\n'.join(hdr + ops) + '\n').encode(), timeout=300, env=env)
                ctx.count('asan-histories')
                if rc != 0:
                    nout = len(o.decode('latin1').splitlines())
                    op = ops[min(nout, len(ops) - 1)]
                    what = re.search(r'ERROR: (\w+Sanitizer: [\w-]+)|runtime error: ([^\n]*)', e.decode('latin1'))
                    sig = {'op': op.split()[0], 'observed': 'sanitizer:' + ((what.group(1) or what.group(2))[:60] if what else 'exit %s' % rc)}
                    ctx.report('impl-vs-spec', sig, 'hash table: %s under ASan/UBSan: %s' % (sig['op'], sig['observed']),
                               {'ops': hdr + ops[:nout + 1], 'failing_op': op, 'stderr': e.decode('latin1')[-1500:], 'how': 'clang -fsanitize=address,undefined build of the harness'})
                    break
    phase('sanitizer')
    # large histories, structure compared by digest
    big = []
    for r in ([x for x in (1, 7, 0) if x in ranges] if quick else ranges):
        nk = 300 if quick else rng.choice([300, 1000])
        keys = [b'key-%d' % i for i in range(nk)]
        big.append((['new %d' % r, 'dump 0'], gen_history(rng, 1500 if quick else 5000, keys, [40, 5, 5, 10, 2, 2, 3, 22, 0.02, 1, 0.3, 0.2])))
    nb += run_histories(ctx, exe, big, 'large')
    phase('large')
    # bounded-exhaustive: all put/remove sequences over K keys of one chain
    ex = []
    plan = [(1, 3, 5), (2, 3, 5), (3, -3, 5), (7, 3, 4), (1000, 3, 4), (0, -3, 4)] if quick else [(1, 4, 5), (1, 3, 7), (2, 3, 6), (3, 4, 5), (7, -3, 6), (1000, 3, 6), (0, -3, 5)]
    for r, K, D in plan:
        if r not in ranges:
            continue
        ex += exhaustive(col, rng, r, K, D)
    nb += run_histories(ctx, exe, ex, 'exhaustive')
    phase('exhaustive')
    ctx.cov['exhaustive'] = False
    ctx.cov['exhaustive_note'] = 'all sequences of D put/remove operations over K keys sharing one chain (K<0: |K| keys with identical 32-bit hash), (range,K,D) in %s, each followed by a complete walk; random and directed histories beyond' % (plan,)
    ctx.cov['correspondence_mismatches'] = nb
    ctx.cov['traces_validated_against_impl'] = len(hs) + len(hists) + len(big) + len(ex)
    ctx.cov['ranges'] = ranges
    ctx.cov['default_index_range'] = default_range
    ctx.cov['murmur_keys_compared_c_python_ocaml'] = nhashed
    try:
        ctx.cov['gcov'] = ctx.gcov('h_hashtbl', 'containers/qhashtbl.c', funcs)
    except Exception as e:       # coverage figures are informational
        ctx.cov['gcov'] = 'unavailable: %s' % e
    for pos in ('head', 'middle', 'tail', 'only'):
        if not ctx.cov['histograms'].get('remove-position:' + pos):
            ctx.broken.append(('generator:removal-positions', 'no removal at chain position %s was exercised' % pos))
    ctx.assumptions += ['histories never call getint on a stored value that atoll would read past (a value without a stopping byte): the specification is undefined there (caller misuse)',
                        'malloc(0) returns a non-NULL pointer (glibc): empty values are stored and found',
                        'caller buffers are exact-size heap blocks scribbled and freed after each call; get/getstr/getnext use newmem=true (getref: newmem=false, read before the next call)',
                        'range < 2^31 (int idx) and no allocation failure (C15 is a separate property)']
    ctx.finish('random, directed (every removal position in chains of length 4-6; complete, abandoned and restarted walks) and bounded-exhaustive histories for ranges 1,2,3,7,1000 and 0 (default) '
               'over keys precomputed to collide; every op: impl vs extracted spec (monitor: result, size, walk as a set) and impl vs extracted model (result + every chain in order with node identity, stored hash, num); '
               'distinct_nontrivial = distinct (num, range, chains) structures observed')
