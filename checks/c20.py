# C20 — configuration parsers deliver exactly what the file says.
from confcommon import *

ENV_SET = [(b'HOME', b'/home/q'), (b'USER', b'q lib'), (b'QV_EMPTY', b''), (b'QV_BR', b'a}b{c')]
ENV_NAMES = [n for n, _ in ENV_SET] + [b'QV_UNSET']


SECT_OPEN = re.compile(rb'^([ \t]*</?[A-Za-z0-9_]+(?:[ \t]+(?:[A-Za-z0-9_.]+|"[A-Za-z0-9_. ]*"|\'[A-Za-z0-9_. ]*\'))*)>([ \t\r]*)$', re.M)
GT_BLANKS = [b' ', b'\t', b'  ', b' \t ', b'\t\t', b' ']


def env_ops():
    return ['env %s %s' % (hx(n), hx(v)) for n, v in ENV_SET]


def classify_ac(exp, got):
    """exp/got: 'ret errline errmsg trace...' lines. Returns None when equal, else the kind of difference."""
    if exp == got:
        return None
    if got.split(' ')[0] in BAD or got == 'DIED':
        return 'crash-or-timeout'
    e, g = exp.split(' ', 3), got.split(' ', 3)
    e += [''] * (4 - len(e))
    g += [''] * (4 - len(g))
    if e[0] != '-1' and g[0] == '-1':
        return 'rejects-conforming'
    if e[0] == '-1' and g[0] != '-1':
        return 'accepts-nonconforming'
    if e[0] != g[0]:
        return 'wrong-count'
    if e[1] != g[1]:
        return 'wrong-error-line'
    if e[2] != g[2]:
        return 'wrong-error-message'
    return 'wrong-trace'


def levels_in(line):
    return [int(m) for m in re.findall(r'\[[OD] \d+ \d+ \d+ (\d+) ', line)]


def run(ctx, replay=None):
    exe = prepare(ctx, ['Properties_C20'], 'h_conf', CONF_SRCS, ['h_conf.c'], wrap=('popen',), cov=True)
    if exe is None:
        ctx.finish('build failed')
    if replay:
        il, ml, ops = replay_ops(ctx, 'conf', exe, replay)
        d = json.load(open(replay)).get('replay', {})
        bad = [o for i, o in enumerate(ops) if i >= len(il) or i >= len(ml) or il[i] != ml[i]]
        if 'expected' in d and il and il[-1] != d['expected']:
            bad.append(ops[-1])
        if bad or not ops:
            print('VIOLATION property=C20 replay=%s' % replay)
            sys.exit(1)
        print('replay: implementation now agrees with model and property on these ops')
        sys.exit(0)
    quick = ctx.tier == 'quick'
    rng = ctx.rng
    corr_bad = [0]

    def corr(name, detail):
        corr_bad[0] += 1
        if corr_bad[0] <= 12:
            ctx.broken.append(('correspondence:' + name, detail))

    # ------------------------------------------------------------------ INI: well-formed documents against the reference semantics
    ndoc = 500 if quick else 100000
    docs = [gen_ini_doc(rng, ENV_NAMES) for _ in range(ndoc)]
    # directed: chains of references, re-definitions, sections, the substitution bound
    for n in (1, 2, 999, 1000):
        docs.append((61, True, [('E', b'', b'a', b'', b'', b'', [('L', b'v')]), ('E', b'', b'b', b' ', b' ', b'', [('R', b'a')] * n)]))
    docs.append((61, False, [('E', b'', b'a', b'', b'', b'', [('L', b'1')]), ('E', b'', b'a', b'', b'', b'', [('R', b'a'), ('L', b'2')]),
                             ('S', b'', b' ', b'a', b'', b''), ('E', b'', b'a', b'', b'', b'', [('R', b'a'), ('R', b'a.'), ('L', b'3')]),
                             ('E', b'', b'b', b'', b'', b'', [('R', b'a.a'), ('V', b'HOME'), ('V', b'QV_UNSET')]), ('S', b'', b'', b'', b'', b''),
                             ('E', b'', b'c', b'', b'', b'', [('R', b'a.b'), ('R', b'a')])]))
    # the same section header again while that section is current (with and without blanks inside the brackets), and back to back
    E1 = lambda k, v: ('E', b'', k, b'', b'', b'', [('L', v)])
    docs.append((61, False, [('S', b'', b'', b'net', b'', b''), E1(b'a', b'1'), ('S', b'', b' ', b'net', b' ', b''), E1(b'b', b'2'),
                             ('S', b'', b'', b'net', b'', b''), ('S', b'', b'', b'net', b'', b''), E1(b'c', b'3')]))
    docs.append((61, False, [('S', b'', b'', b's', b'', b''), ('S', b'', b'', b's', b'', b''), E1(b'k', b'v'), ('S', b'', b'', b't', b'', b''),
                             ('S', b'', b'', b's', b'', b''), E1(b'k', b'w')]))
    spec_ops = [enc_ini_doc(*d) for d in docs]
    sl, err = run_model(ctx, env_ops() + spec_ops)
    if err:
        ctx.broken.append(('correspondence:ini-spec-run', err))
    sl = sl[len(ENV_SET):]
    ops, exp = [], []
    for i, d in enumerate(docs):
        if i >= len(sl) or ' ' not in sl[i]:
            continue
        wf, text, e = sl[i].split(' ', 2)
        ctx.count('ini-generated:' + wf)
        if wf != 'wf':            # outside the hypothesis of C20_ini_roundtrip: a generator slip, not evidence of anything
            continue
        ops.append('ini %d %s' % (d[0], text)); exp.append((i, e))
        if b'@INCLUDE ' not in unhex(text) and (i % 3 == 0):
            ops.append('inif %d %s' % (d[0], text)); exp.append((i, e))
    il, ml, err = both_conf(ctx, exe, env_ops() + ops)
    if err:
        ctx.broken.append(('correspondence:ini-run', err))
    il, ml = il[len(ENV_SET):], ml[len(ENV_SET):]
    for k, op in enumerate(ops):
        a = il[k] if k < len(il) else 'MISSING'
        m = ml[k] if k < len(ml) else 'MISSING'
        i, e = exp[k]
        ctx.cov['evaluations'] += 1
        ctx.count('ini-wellformed:items=%d' % min(len(docs[i][2]), 16))
        if len(docs[i][2]) > 0:
            ctx.distinct.add(('ini', op.split(' ', 2)[2]))
        if a.rstrip() != e.rstrip():
            kind = 'crash-or-timeout' if a in BAD else 'entries-differ'
            ctx.report('impl-vs-spec', {'op': op.split()[0], 'observed': kind},
                       'INI parser output differs from what the document says (%s)' % kind,
                       {'ops': env_ops() + [op], 'expected': e, 'actual': a, 'document': spec_ops[i]})
        if a != m:
            corr('ini', '%s: impl=%s model=%s' % (op[:300], a[:300], m[:300]))
    ctx.sample({'ini-doc': spec_ops[min(7, len(spec_ops) - 1)], 'impl': il[0] if il else ''})

    # ------------------------------------------------------------------ INI: the include directive's text where it is NOT a directive, through the
    # file entry point, with an include file of two live lines next to the document: a commented-out include (a "#" line that mentions the directive after a blank or tab) is a
    # comment like any other - the document says what it said without that line (the specification's answer for the document as generated)
    iops, iexp = ['incfile ' + hx(b'qvi1=1\nqvi2=2\n')], [None]
    for k, op in enumerate(ops):
        if op.startswith('inif ') and len(iops) < (80 if quick else 2000):
            d0, text = op.split(' ', 2)[1:]
            for pre in (b'# @INCLUDE qvinc.conf\n', b'#old @INCLUDE qvinc.conf\n', b'#\t@INCLUDE qvinc.conf\n'):
                iops.append('inif %s %s' % (d0, hx(pre + unhex(text)))); iexp.append(exp[k][1])
    il2, ml2, err = both_conf(ctx, exe, env_ops() + iops)
    il2 = il2[len(ENV_SET):]
    for k, op in enumerate(iops):
        if iexp[k] is None:
            continue
        a = il2[k] if k < len(il2) else 'MISSING'
        ctx.cov['evaluations'] += 1
        ctx.count('ini-commented-include')
        if a.rstrip() != iexp[k].rstrip():
            kind = 'crash-or-timeout' if a in BAD else 'entries-differ'
            ctx.report('impl-vs-spec', {'op': 'inif', 'observed': kind}, 'INI parser: a commented-out include directive changes what the file says (%s)' % kind,
                       {'ops': env_ops() + [iops[0], op], 'expected': iexp[k], 'actual': a})

    # ------------------------------------------------------------------ INI: a reference inside the braces of another one (the name of the
    # outer reference is itself computed: documented as "innermost first").  The expectation is the specification's answer for the same document
    # with the inner reference written out, so the judgement is implementation vs specification, not implementation vs model.
    EP = lambda k, pieces: ('E', b'', k, b'', b'', b'', pieces)
    nest = [
        ([E1(b'mode', b'dev'), E1(b'dir_dev', b'/d'), EP(b'p', [('R', b'dir_dev'), ('L', b'/data')])], [(b'${dir_dev}', b'${dir_${mode}}')]),
        ([E1(b'mode', b'dev'), E1(b'dir_dev', b'/d'), EP(b'p', [('L', b'pre'), ('R', b'dir_dev'), ('L', b'mid'), ('R', b'dir_dev'), ('L', b'post')])],
         [(b'${dir_dev}', b'${dir_${mode}}')]),
        ([E1(b'a', b'1'), E1(b'k1', b'2'), E1(b'k2', b'z'), EP(b'x', [('R', b'k2'), ('L', b'!')])], [(b'${k2}', b'${k${k${a}}}')]),
        ([E1(b'kk', b'k'), ('S', b'', b'', b's', b'', b''), E1(b'k', b'7'), ('S', b'', b'', b'', b'', b''), EP(b'x', [('L', b'<'), ('R', b's.k'), ('L', b'>')])],
         [(b'${s.k}', b'${s.${kk}}')]),
        ([E1(b'n', b'OME'), EP(b'x', [('V', b'HOME'), ('L', b'/y')])], [(b'${%HOME}', b'${%H${n}}')]),
        ([E1(b'mode', b'dev'), E1(b'dir_dev', b'/d'), E1(b'mode', b'prod'), E1(b'dir_prod', b'/p'), EP(b'p', [('R', b'dir_prod'), ('R', b'mode')])],
         [(b'${dir_prod}', b'${dir_${mode}}')]),
    ]
    nsl, err = run_model(ctx, env_ops() + [enc_ini_doc(61, False, d) for d, _ in nest])
    nsl = nsl[len(ENV_SET):]
    nops, nexp = [], []
    for (d, reps), l in zip(nest, nsl):
        if ' ' not in l or not l.startswith('wf '):
            continue
        wf, text, e = l.split(' ', 2)
        t = unhex(text)
        for a_, b_ in reps:
            if a_ not in t:
                t = None
                break
            t = t.replace(a_, b_)
        if t is None:
            continue
        nops.append('ini 61 ' + hx(t)); nexp.append(e)
    il, ml, err = both_conf(ctx, exe, env_ops() + nops)
    il = il[len(ENV_SET):]
    for k, op in enumerate(nops):
        a = il[k] if k < len(il) else 'MISSING'
        ctx.cov['evaluations'] += 1
        ctx.count('ini-nested-reference')
        if a.rstrip() != nexp[k].rstrip():
            kind = 'crash-or-timeout' if a in BAD else 'entries-differ'
            ctx.report('impl-vs-spec', {'op': 'ini', 'observed': kind}, 'INI parser: a reference nested in another one is not replaced innermost first (%s)' % kind,
                       {'ops': env_ops() + [op], 'expected': nexp[k], 'actual': a})

    # ------------------------------------------------------------------ INI: malformed / hostile text, impl vs model only
    mal = [unhex(o.split(' ', 2)[2]) for o in ops[:400 if quick else 40000] if o.startswith('ini ')]
    mops = ['ini 61 ' + hx(mutate(rng, t, INI_SIG)) for t in mal] + ['ini 61 ' + hx(t) for t in INI_HOSTILE]
    mops += ['inif 61 ' + hx(t) for t in INI_HOSTILE if b'@INCLUDE ' not in t]
    il, ml, err = both_conf(ctx, exe, env_ops() + mops)
    if err:
        ctx.broken.append(('correspondence:ini-mal-run', err))
    il, ml = il[len(ENV_SET):], ml[len(ENV_SET):]
    for k, op in enumerate(mops):
        a = il[k] if k < len(il) else 'MISSING'
        m = ml[k] if k < len(ml) else 'MISSING'
        ctx.cov['evaluations'] += 1
        ctx.count('ini-malformed')
        if a != m:
            corr('ini-malformed', '%s: impl=%s model=%s' % (op[:300], a[:300], m[:300]))

    # ------------------------------------------------------------------ Apache-style: documents against the reference semantics
    ndoc = 700 if quick else 120000
    cases = []
    for _ in range(ndoc):
        table = gen_table(rng)
        flags = rng.choice([0, 0, 1, 2, 3])
        defcb = 1 if rng.random() < .15 else 0
        cases.append((flags, defcb, table, gen_aconf_doc(rng, table, flags)))
    # directed: the documentation's example, every boolean spelling, deep nesting (level is a uint8_t in the C struct)
    t0, t1 = FIXED_TABLES
    example = open(os.path.join(REPO, 'examples/apacheconf.conf'), 'rb').read() if os.path.exists(os.path.join(REPO, 'examples/apacheconf.conf')) else b''
    for sp in BOOLS_T + BOOLS_F:
        for v in (sp, sp.upper(), sp.capitalize()):
            cases.append((0, 0, t1, [('D', b'', b'', [(b'', 'b', b'B'), (b' ', 'b', v)]), ('D', b' ', b'', [(b'', 'b', b'AB'), (b' ', 'd0', v), (b'', 's1', v)] + [(b' ', 'b', v)] * 5)]))
    for depth in (3, 40, 255, 256, 257, 300):
        nodes = [('D', b'', b'', [(b'', 'b', b'N')])]
        for _ in range(depth):
            nodes = [('S', b'', b'', [(b'', 'b', b'Sec')], nodes, b'', b'Sec', b'')]
        cases.append((0, 0, t1, nodes))
    # directed: directive lines as long as the line buffer takes in one read (4095 characters) and a few shorter, followed by more directives
    fullline = set()      # cases with a line of exactly 4095 characters: see below
    for T in (1000, 4000, 4090, 4091, 4092, 4093, 4094, 4095):
        for style in ('b', 'd0'):
            if T == 4095:
                fullline.update([len(cases), len(cases) + 1])
            L = T - len(b'Protocols ') - (2 if style == 'd0' else 0)
            cases.append((0, 0, t0, [('D', b'', b'', [(b'', 'b', b'Protocols'), (b' ', style, b'x' * (L - 1) + b'Z')]), ('D', b'', b'', [(b'', 'b', b'Listen'), (b' ', 'b', b'53')])]))
            cases.append((0, 0, t0, [('D', b'', b'', [(b'', 'b', b'Protocols'), (b' ', 'b', b'ab')] + [(b' ', style, b'y' * ((L - 4) // 2)), (b' ', 'b', b'w' * (L - 4 - (L - 4) // 2))]),
                                     ('D', b'', b'', [(b'', 'b', b'Listen'), (b' ', 'b', b'53')])]))
    # directed: an unregistered (ignored / default-handled) section after a registered sibling: scopes inside it
    def sect(name, arg, body):
        return ('S', b'', b'', [(b'', 'b', name)] + ([(b' ', 'b', arg)] if arg else []), body, b'', name, b'')
    for fl, dc in ((2, 0), (0, 1), (3, 1)):
        for inner in (b'TTL', b'Listen', b'IPv4'):
            cases.append((fl, dc, t0, [sect(b'Domain', b'x', []), sect(b'Foo', b'', [('D', b' ', b'', [(b'', 'b', inner), (b' ', 'b', b'1')])])]))
            cases.append((fl, dc, t0, [sect(b'Domain', b'x', [sect(b'Host', b'h', []), sect(b'Bar', b'y', [('D', b'', b'', [(b'', 'b', inner), (b' ', 'b', b'1')])])])]))
    # directed: every string up to length 4 (5) over "-.01a" as an integer, a floating point and a boolean argument,
    # and boolean look-alikes, so that _is_str_number/_is_str_bool are compared with the grammar through the real parser
    forms = [bytes(p) for n in range(0, 5 if quick else 6) for p in itertools.product(b'-.01a', repeat=n)]
    forms += [randcase(rng, w) + sfx for w in BOOLS_T + BOOLS_F + NOTBOOL for sfx in (b'', b'x', b's')] + INTS + FLOATS + NOTNUM
    for f in forms:
        if b'"' in f or b'\\' in f:
            continue
        for o in (b'I', b'F', b'B'):
            cases.append((0, 0, t1, [('D', b'', b'', [(b'', 'b', o), (b' ', 'd0', f)])]))
    spec_ops = [enc_aconf_doc(*c) for c in cases]
    sl, err = run_model(ctx, spec_ops)
    if err:
        ctx.broken.append(('correspondence:aconf-spec-run', err))
    ops, exp = [], []
    for i, c in enumerate(cases):
        if i >= len(sl) or ' ' not in sl[i]:
            continue
        wf, text, e = sl[i].split(' ', 2)
        ctx.count('aconf-generated:' + wf)
        if wf == 'nwf' and i in fullline and not e.startswith('-1'):
            # a line of exactly 4095 characters: the theorem's premise wants the newline in the buffer too, but fgets() hands the newline
            # over as a line of its own, which is blank and ignored - the callbacks are those the specification lists (search input)
            ctx.count('aconf-generated:full-line')
        elif wf == 'nwf':         # outside the hypotheses of C20_aconf_accepts_iff: a generator slip, not evidence of anything
            continue
        # one case in five: the same parser object parses the same file twice and the second run is the one compared
        ops.append('%s %d %d %s %s' % ('acr' if i % 5 == 3 else 'ac', c[0], c[1], enc_table(c[2]), text)); exp.append((i, e))
        # the same accepted document with blanks / tabs between the last word of a section tag (open or close, bare or quoted) and its '>'
        # ("<Host a >", "<Host 'a'  >", "</Host >"): they belong to no argument, so the callbacks are those of the document as generated
        # (search input; judged against the specification's answer for the generated form)
        if not e.startswith('-1') and wf == 'wf':
            t2 = SECT_OPEN.sub(lambda mo: mo.group(1) + GT_BLANKS[(i + len(mo.group(1))) % len(GT_BLANKS)] + b'>' + mo.group(2), unhex(text))
            if t2 != unhex(text):
                ctx.count('aconf-generated:blank-before-gt')
                ops.append('ac %d %d %s %s' % (c[0], c[1], enc_table(c[2]), hx(t2))); exp.append((i, e))
    if example:
        ops.append('ac 1 0 %s %s' % (enc_table(t0), hx(example))); exp.append((None, None))
    il, ml, err = both_conf(ctx, exe, ops)
    if err:
        ctx.broken.append(('correspondence:aconf-run', err))
    for k, op in enumerate(ops):
        a = il[k] if k < len(il) else 'MISSING'
        m = ml[k] if k < len(ml) else 'MISSING'
        i, e = exp[k]
        ctx.cov['evaluations'] += 1
        if i is not None:
            c = cases[i]
            n, dp = count_nodes(c[3]), depth_nodes(c[3])
            ctx.count('aconf:%s' % ('accepted' if not e.startswith('-1') else 'rejected:' + bytes.fromhex(e.split(' ')[2]).decode('latin1').split("'")[0].strip()[:28]))
            ctx.count('aconf-depth=%d' % min(dp, 8))
            if n:
                ctx.distinct.add(('ac', op.split(' ', 1)[1]))
            kind = classify_ac(e.rstrip(), a.rstrip())
            if kind:
                sig = {'op': 'ac', 'observed': kind}
                if kind == 'wrong-trace' and dp >= 256 and max(levels_in(e) + [0]) >= 256 and \
                        [x % 256 for x in levels_in(e)] == levels_in(a) and re.sub(r'(\[[OD] \d+ \d+ \d+ )\d+ ', r'\1L ', re.sub(r'\|\d+ ', '|L ', e)) == re.sub(r'(\[[OD] \d+ \d+ \d+ )\d+ ', r'\1L ', re.sub(r'\|\d+ ', '|L ', a)):
                    sig = {'op': 'ac', 'observed': 'level-wraps', 'when': 'nesting-depth>=256'}
                ctx.report('impl-vs-spec', sig, 'Apache-style parser differs from what the document and option table say (%s)' % sig['observed'],
                           {'ops': [op], 'expected': e, 'actual': a, 'document': spec_ops[i]})
        if a != m:
            corr('aconf', '%s: impl=%s model=%s' % (op[:400], a[:300], m[:300]))
    ctx.sample({'aconf-doc': spec_ops[min(11, len(spec_ops) - 1)], 'impl': il[min(11, len(il) - 1)] if il else ''})
    # ---- blanks between the last argument of a section tag and its '>' that the one-blank-after-a-bare-word case above does not cover:
    # after a quoted word, or two blanks.  The blanks belong to no argument (option lines are trimmed), so the expectation is the
    # specification's answer for the tag as generated.  The pinned tree delivered an extra empty argument in these two cases (repaired in
    # /repo e73b184; listed as `fixed`, which suppresses nothing): that form of the defect is recognised by comparing with the specification's
    # answer for the tag with an explicit "" argument and named in the signature.
    W = lambda *ws: [(b'' if k == 0 else b' ', st, t) for k, (st, t) in enumerate(ws)]
    S_ = lambda words, body: ('S', b'', b'', words, body, b'', words[0][2], b'')
    gt = [  # (document as generated, the same with an explicit empty last argument, (from, to) replacement in the rendered text)
        ([S_(W(('b', b'Sec'), ('d0', b'a')), [])], [S_(W(('b', b'Sec'), ('d0', b'a'), ('d0', b'')), [])], (b'"a">', b'"a" >')),
        ([S_(W(('b', b'Sec'), ('b', b'a')), [])], [S_(W(('b', b'Sec'), ('b', b'a'), ('d0', b'')), [])], (b'a>', b'a  >')),
        ([S_(W(('b', b'Sec'), ('s0', b'x y'), ('b', b'z')), [('D', b'', b'', W(('b', b'N')))])], [S_(W(('b', b'Sec'), ('s0', b'x y'), ('b', b'z'), ('d0', b'')), [('D', b'', b'', W(('b', b'N')))])], (b'z>', b'z \t>')),
        ([S_(W(('b', b'Sec'), ('b', b'a')), [S_(W(('b', b'Sub'), ('d0', b'x')), [])])], [S_(W(('b', b'Sec'), ('b', b'a')), [S_(W(('b', b'Sub'), ('d0', b'x'), ('d0', b'')), [])])], (b'"x">', b'"x" >')),
    ]
    gsl, err = run_model(ctx, [enc_aconf_doc(0, 0, t1, d) for g in gt for d in (g[0], g[1])])
    gops, gexp = [], []
    for k, g in enumerate(gt):
        if 2 * k + 1 >= len(gsl) or ' ' not in gsl[2 * k] or ' ' not in gsl[2 * k + 1]:
            continue
        wf0, text0, e0 = gsl[2 * k].split(' ', 2)
        wf1, text1, e1 = gsl[2 * k + 1].split(' ', 2)
        t0 = unhex(text0)
        if wf0 != 'wf' or g[2][0] not in t0:
            continue
        gops.append('ac 0 0 %s %s' % (enc_table(t1), hx(t0.replace(g[2][0], g[2][1], 1)))); gexp.append((e0, e1))
    gil, gml, err = both_conf(ctx, exe, gops)
    for k, op in enumerate(gops):
        a = gil[k] if k < len(gil) else 'MISSING'
        e0, e1 = gexp[k]
        ctx.cov['evaluations'] += 1
        ctx.count('aconf-blanks-before-gt')
        kind = classify_ac(e0.rstrip(), a.rstrip())
        if kind:
            same_as_explicit = re.sub(r'^\S+ \S+ \S+', '', a.rstrip()) == re.sub(r'^\S+ \S+ \S+', '', e1.rstrip()) or a.split(' ')[0] == '-1'
            sig = {'op': 'ac', 'observed': 'extra-empty-argument', 'when': 'blanks-before-closing-bracket-of-section-tag'} if same_as_explicit else {'op': 'ac', 'observed': kind}
            ctx.report('impl-vs-spec', sig, 'Apache-style parser: blanks between the last argument of a section tag and its \'>\' (%s)' % sig['observed'],
                       {'ops': [op], 'expected': e0, 'actual': a, 'with_explicit_empty_argument': e1})
    if example:
        ctx.sample({'examples/apacheconf.conf': il[-1][:300] if il else ''})

    # ------------------------------------------------------------------ Apache-style: malformed text, impl vs model only
    base = [(o.split(' ')[1], o.split(' ')[2], o.split(' ')[3], unhex(o.split(' ')[4])) for o in ops[:500 if quick else 50000]]
    mops = ['ac %s %s %s %s' % (f, d, t, hx(mutate(rng, x, AC_SIG))) for f, d, t, x in base]
    for t in AC_HOSTILE:
        for f, d in ((0, 0), (3, 0), (2, 1)):
            mops.append('ac %d %d %s %s' % (f, d, enc_table(AC_C17_TABLE), hx(t)))
    il, ml, err = both_conf(ctx, exe, mops)
    if err:
        ctx.broken.append(('correspondence:aconf-mal-run', err))
    for k, op in enumerate(mops):
        a = il[k] if k < len(il) else 'MISSING'
        m = ml[k] if k < len(ml) else 'MISSING'
        ctx.cov['evaluations'] += 1
        ctx.count('aconf-malformed')
        if a != m:
            corr('aconf-malformed', '%s: impl=%s model=%s' % (op[:400], a[:300], m[:300]))

    # ------------------------------------------------------------------ number / boolean syntax: model vs grammar (monitor for the C functions goes through the parser above)
    nops = ['numspec ' + hx(bytes(p)) for n in range(0, 5 if quick else 6) for p in itertools.product(b'-.01a', repeat=n)]
    nops += ['numspec ' + hx(randcase(rng, w) + s) for w in BOOLS_T + BOOLS_F + NOTBOOL for s in (b'', b'x', b' ') for _ in range(3)]
    nl, err = run_model(ctx, nops)
    for k, op in enumerate(nops):
        w = nl[k].split() if k < len(nl) else []
        ctx.cov['evaluations'] += 1
        if len(w) != 4 or w[0] != w[2] or w[1] != w[3]:
            corr('numspec', '%s: model/grammar = %s' % (op, ' '.join(w)))

    ctx.cov['correspondence_mismatches'] = corr_bad[0]
    try:
        ctx.cov['gcov'] = {'qaconf.c': ctx.gcov('h_conf', 'extensions/qaconf.c', ['_parse_inline', '_is_str_number', '_is_str_bool']),
                           'qconfig.c': ctx.gcov('h_conf', 'extensions/qconfig.c', ['qconfig_parse_str', '_parsestr', 'qconfig_parse_file'])}
    except Exception as ex:                                               # coverage figures are informative only
        ctx.cov['gcov'] = 'unavailable: %s' % ex
    ctx.assumptions += ['documents are generated well-formed (IniProofs.wf_doc / AconfProofs.wf conditions) for the impl-vs-spec monitor; arbitrary mutated text only for impl-vs-model',
                        'external commands (${!cmd}) are stubbed to fail in the harness (popen wrapped); @INCLUDE is not exercised',
                        'option tables: sectionid < 2^32, take < 2^32; callbacks return an error exactly when their first argument is the word !fail']
    ctx.finish('render abstract documents with the extracted renderer; parse with the implementation and with the extracted model (equal?); '
               'compare the implementation with the extracted reference semantics ini_eval / aconf_srun (entries, callback trace, count, error line and message); '
               'mutated and hostile text impl vs model; distinct_nontrivial = distinct non-empty documents')
