# Shared machinery of the tree-table checks C01-C04: history generators, lockstep run of
# implementation / extracted model / extracted spec, property monitors.
import math
from vlib import *

KEYS_SMALL = [bytes([0x61 + i, 0]) for i in range(26)]


def key_universe(rng, n, kind):
    if kind == 'str':
        return [b'\0'] + [('k%03d' % i).encode() + b'\0' for i in range(n - 1)]       # the empty string is a key too
    if kind == 'case':     # keys that differ only in case: equal under the case-insensitive ordering
        base = [bytes([0x61 + i]) + b'\0' for i in range(max(2, n // 2))]
        return (base + [k.upper() for k in base])[:max(n, 4)]
    if kind == 'bin':      # binary keys of differing lengths, embedded NULs, prefixes of each other
        base = [b'\0', b'\0\0', b'a', b'a\0', b'a\0b', b'ab', b'\xff', b'\xff\0', b'\x80', b'\x7f\xff', b'b', b'ba', b'\0\xff',
                b'8bytekey', b'\x01\0\0\0\0\0\0\0', b'\0\0\0\0\0\0\0\x01']       # 8 bytes = sizeof(size_t): see the `get` op of the harness
        out = list(base)
        while len(out) < n:
            out.append(bytes(rng.randrange(256) for _ in range(rng.randrange(1, 6))))
        return list(dict.fromkeys(out))[:n]
    return KEYS_SMALL[:n]


def rand_val(rng):
    r = rng.random()
    if r > 0.8:           # values that differ only in case or only behind a NUL: equal under some orderings of KEYS, never equal as values
        return rng.choice([b'val\0', b'VAL\0', b'Val\0', b'v\0x', b'v\0y', b'ab', b'abc'])
    if r < 0.15:
        return b''
    if r < 0.3:
        return bytes([rng.randrange(256)]) + b'\0'
    return bytes(rng.randrange(256) for _ in range(rng.randrange(1, 9)))


def gen_history(rng, nops, keys, mix):
    """mix: weights for put, get, remove, clear, size, min, max, walk, near."""
    kinds = ['put', 'get', 'remove', 'clear', 'size', 'min', 'max', 'walk', 'near']
    ops = []
    for _ in range(nops):
        k = rng.choices(kinds, weights=mix)[0]
        key = rng.choice(keys)
        skey = key[:-1] if key.endswith(b'\0') and b'\0' not in key[:-1] else None
        if skey is not None and k in ('put', 'get', 'remove') and rng.random() < 0.3:
            # the string-key interface (the key's terminator is part of the key; the empty string is a key like any other)
            if k == 'put':
                v = bytes(rng.choice(b'abcXYZ019 ') for _ in range(rng.choice([0, 1, 3, 8])))
                ops.append('sput %s %s' % (hexs(skey) or '-', hexs(v) or '-'))
            else:
                if k == 'get' and rng.random() < 0.5:     # getstr() (into the table or a copy) in front of the get
                    ops.append('sgets %s %d' % (hexs(skey) or '-', rng.randrange(2)))
                else:
                    ops.append('%s %s' % ('sget' if k == 'get' else 'srem', hexs(skey) or '-'))
        elif k == 'put' and rng.random() < 0.07:     # value (and key) handed in through the table's own pointers (getobj newmem=false)
            ops.append('putself %s %d:%d:%d' % (hexs(key), rng.choice([0, 0, 1, 2]), rng.choice([-1, -1, 1, 2, 3]), rng.randrange(2)))
        elif k == 'put':
            ops.append('put %s %s' % (hexs(key), hexs(rand_val(rng))))
        elif k in ('get', 'remove'):
            ops.append('%s %s' % (k, hexs(key)))
        elif k == 'size' and rng.random() < 0.5:
            ops.append('otherwalk %d' % rng.choice([0, 1, 3, 100, 253, 254, 255, 256, 257]))
        elif k == 'walk':
            n = rng.choice([0, 1, 2, 3, len(keys) // 2, len(keys) + 2, len(keys) + 2, len(keys) + 2])
            if rng.random() < 0.25 and key:      # the same walk with reads (get, find-min/max, size) between the steps
                ops.append('walk %d %s' % (n, hexs(key)))
            else:
                ops.append('walk %d' % n)
        elif k == 'near' and rng.random() < 0.12:
            # the probe is a prefix of the table's own key buffer (handed back by pointer with a shorter length)
            ops.append('nearself %s %d' % (hexs(rng.choice(keys)), rng.choice([1, 1, 2, 3, 8])))
        elif k == 'near':
            probe = rng.choice(keys)
            r = rng.random()
            if r < 0.5:      # between / below / above
                probe = probe[:-1] + bytes([min(255, probe[-1] + rng.choice([0, 1]))]) + (b'' if r < 0.25 else b'\x01')
            if r > 0.9:
                probe = b'\0' if rng.random() < .5 else b'\xff\xff\xff'
            elif 0.5 <= r < 0.62 and len(probe) > 1:      # a proper prefix of a stored key, from a buffer of its own: sorts before it
                probe = probe[:rng.randrange(1, len(probe))]
            elif 0.62 <= r < 0.7:                          # a stored key extended by one byte: sorts right after it
                probe = probe + bytes([rng.choice([0, 0, 1, 255])])
            n = rng.choice([0, 1, 2, len(keys) + 2, len(keys) + 2])
            ops.append('near %s %d' % (hexs(probe), n))
        else:
            ops.append(k)
    return ops


def canon_near(obs):
    """'near <res> <end|more> <list>' -> (res, ended, sorted list, count, distinct?)"""
    p = obs.split(' ')
    res, ended = p[1], p[2]
    lst = [x for x in (p[3].split(',') if len(p) > 3 and p[3] else []) if x]
    return res, ended, lst


def monitor(ctx, opline, impl, spec, focus):
    """Property monitor: implementation observation vs specification observation. Returns a signature dict or None."""
    kind = opline.split()[0]
    kind = {'sput': 'put', 'sget': 'get', 'sgets': 'get', 'srem': 'remove'}.get(kind, kind)
    for w in ('CRASH', 'TIMEOUT'):          # a call that died after printing part of its line
        if impl.endswith(w):
            impl = w
    if impl in ('CRASH', 'TIMEOUT', 'DEAD', 'MISSING'):
        if impl in ('DEAD', 'MISSING'):
            return None
        return {'op': kind, 'observed': impl.lower()}
    iobs = impl.split(' | ')[0]
    istruct = impl.split(' | ')[1] if ' | ' in impl else ''
    sobs = spec[2:] if spec.startswith('S ') else spec
    # structural clauses of C02 reported by the implementation itself / the independent checker
    m = re.search(r'chk=(\d+)', istruct)
    if m and m.group(1) != '0':
        return {'op': kind, 'observed': 'qtreetbl_check=%s' % m.group(1)}
    m = re.search(r'INDEP=(\d+)', istruct)
    if m:
        return {'op': kind, 'observed': 'invariant-clause-%s' % m.group(1)}
    if kind == 'get':
        mm = re.match(r'(\S+)(?: cmps=(\d+))?', iobs)
        val, cm = mm.group(1), mm.group(2)
        if val != sobs:
            return {'op': 'get', 'observed': 'wrong-value'}
        nn = re.search(r'num=(\d+)', istruct)
        if cm is not None and nn:
            n = int(nn.group(1))
            if int(cm) > 2 * math.log2(n + 1) + 1e-9:
                return {'op': 'get', 'observed': 'too-many-comparisons'}
        return None
    if kind == 'nearself':
        if iobs == 'noself' or sobs == 'noself':
            return None if iobs == sobs else {'op': 'nearself', 'observed': 'wrong-result'}
        kind = 'near'
    if kind == 'near':
        ires, iend, ilst = canon_near(iobs)
        sp = sobs.split(' ')
        sres, send, scount = sp[1], sp[2], sp[3] if len(sp) > 3 else '0'
        sall = [x for x in (sp[4].split(',') if len(sp) > 4 else []) if x]
        if ires != sres:
            return {'op': 'near', 'observed': 'wrong-nearest'}
        if sres == 'none' or send == 'unspecified':
            return None
        if iend != send or len(ilst) != int(scount):
            return {'op': 'near', 'observed': 'continuation-wrong-count'}
        if len(set(ilst)) != len(ilst) or any(x not in sall for x in ilst):
            return {'op': 'near', 'observed': 'continuation-duplicate-or-foreign'}
        if iend == 'end' and sorted(ilst) != sorted(sall):
            return {'op': 'near', 'observed': 'continuation-missing-keys'}
        return None
    if kind == 'walk':
        if iobs != sobs:
            il = iobs.split(' ')
            sl = sobs.split(' ')
            ik = il[2].split(',') if len(il) > 2 else []
            sk = sl[2].split(',') if len(sl) > 2 else []
            if len(ik) < len(sk):
                return {'op': 'walk', 'observed': 'missing-keys'}
            if sorted(ik) == sorted(sk):
                return {'op': 'walk', 'observed': 'wrong-order'}
            return {'op': 'walk', 'observed': 'wrong-sequence'}
        return None
    if iobs != sobs:
        return {'op': kind, 'observed': 'wrong-result'}
    if kind == 'size':
        nn = re.search(r'num=(\d+)', istruct)
    return None


def run_histories(ctx, exe, histories, label, focus):
    """histories: list of (header_lines, ops). Runs all in one harness/driver invocation each. Returns #mismatches."""
    lines = []
    index = []     # (history idx, op idx) per op line
    for hi, (hdr, ops) in enumerate(histories):
        lines += hdr
        for oi, o in enumerate(ops):
            lines.append(o)
            index.append((hi, oi))
    data = ('\n'.join(lines) + '\n').encode()
    rc1, o1, e1 = ctx.run([exe], inp=data, timeout=1800)
    rc2, o2, e2 = ctx.driver(['tree'], inp=data, timeout=1800)
    il = o1.decode('latin1').splitlines()
    dl = o2.decode('latin1').splitlines()
    ml, sl = dl[0::2], dl[1::2]
    if rc1 != 0 and len(il) < len(index):
        # the harness process itself died (a fault outside the guarded call, e.g. while the structure was inspected after the
        # operation): the first op without an answer is the one that broke the table
        hi, oi = index[len(il)]
        hdr, ops = histories[hi]
        sig = {'op': ops[oi].split()[0], 'observed': 'crash'}
        ctx.report('impl-vs-spec', sig, 'tree table: the process died (exit %s) at `%s`: the operation or the inspection of the structure it left behind faulted' % (rc1, ops[oi][:60]),
                   {'ops': hdr + ops[:oi + 1], 'failing_op': ops[oi], 'impl': 'process exit %s' % rc1, 'stderr': e1.decode('latin1')[-400:]})
    elif rc1 != 0:
        ctx.broken.append(('correspondence:%s-harness' % label, 'harness exit %s: %s' % (rc1, e1.decode('latin1')[-400:])))
    if rc2 != 0:
        ctx.broken.append(('correspondence:%s-driver' % label, 'driver exit %s: %s' % (rc2, e2.decode('latin1')[-400:])))
    nbad = 0
    failed_hist = set()
    diverged = set()
    for n, (hi, oi) in enumerate(index):
        a = il[n] if n < len(il) else 'MISSING'
        m = ml[n][2:] if n < len(ml) else 'MISSING'
        s = sl[n] if n < len(sl) else 'MISSING'
        hdr, ops = histories[hi]
        ctx.cov['evaluations'] += 1
        ctx.count(label + ':' + ops[oi].split()[0])
        if hi in failed_hist:
            continue
        if ' | ' in a and hi not in diverged:
            ctx.distinct.add(a.split(' | ')[1])
        sig = monitor(ctx, ops[oi], a, s, focus)
        if sig is not None:
            failed_hist.add(hi)
            key = json.dumps(sig, sort_keys=True)
            if key in getattr(ctx, 'sig_counts', {}) or ctx.match_known(sig):
                small = ops[:oi + 1]          # already reported once (or a listed finding): no need to shrink again
            else:
                small = shrink(ctx, exe, hdr, ops[:oi + 1], sig, focus)
            ctx.report('impl-vs-spec', sig, 'tree table: %s %s' % (sig['op'], sig['observed']),
                       {'ops': hdr + small, 'failing_op': small[-1] if small else ops[oi], 'impl': a[:600], 'spec': s[:600], 'model': m[:600]})
            continue
        if a != m and hi not in diverged:
            nbad += 1
            diverged.add(hi)      # keep monitoring impl vs spec on the rest of this history; the model comparison is moot from here
            if nbad <= 3:
                ctx.broken.append(('correspondence:%s' % label, 'history %d op %d `%s`:\n impl : %s\n model: %s\n(prefix: %s)' % (
                    hi, oi, ops[oi], a[:500], m[:500], ' ; '.join((hdr + ops[:oi])[-12:]))))
    if histories:
        hdr, ops = histories[len(histories) // 2]
        ctx.sample({'history': label, 'ops': (hdr + ops)[:12], 'impl_last_line': il[-1][:300] if il else ''})
    return nbad


def shrink(ctx, exe, hdr, ops, sig, focus):
    """Delta-debug a failing history: keep removing ops while the same signature is still produced at the last op."""
    def fails(cand):
        data = ('\n'.join(hdr + cand) + '\n').encode()
        rc1, o1, _ = ctx.run([exe], inp=data, timeout=60)
        rc2, o2, _ = ctx.driver(['tree'], inp=data, timeout=60)
        il = o1.decode('latin1').splitlines()
        sl = o2.decode('latin1').splitlines()[1::2]
        for i, o in enumerate(cand):
            a = il[i] if i < len(il) else 'MISSING'
            s = sl[i] if i < len(sl) else 'MISSING'
            if monitor(ctx, o, a, s, focus) == sig:
                return i
        return None
    cur = list(ops)
    if len(cur) > 400:
        return cur
    n = 2
    budget = 40 if sig.get('observed') in ('timeout', 'crash') else 120
    while len(cur) >= 2 and budget > 0:
        chunk = max(1, len(cur) // n)
        removed = False
        for start in range(0, len(cur) - 1, chunk):
            cand = cur[:start] + cur[start + chunk:]
            budget -= 1
            if not cand:
                continue
            r = fails(cand)
            if r is not None:
                cur = cand[:r + 1]
                n = max(n - 1, 2)
                removed = True
                break
            if budget <= 0:
                break
        if not removed:
            if chunk == 1:
                break
            n = min(n * 2, len(cur))
    return cur


def bfs_shapes(ctx, K, cmpname='byte', maxstates=10 ** 9):
    """Explore every tree shape reachable by put/remove over K keys, using the model to enumerate; returns histories
    (one per transition, replaying the path from the empty table) so that the implementation can be run on them."""
    keys = [bytes([0x41 + i]) for i in range(K)]
    seen = {'.': []}
    frontier = ['.']
    hist = []
    hdr = ['cmp ' + cmpname, 'dump 1']
    while frontier:
        batch = []
        for sh in frontier:
            path = seen[sh]
            for k in keys:
                batch.append((sh, path + ['put %s 01' % hexs(k)]))
                batch.append((sh, path + ['remove %s' % hexs(k)]))
        lines = []
        for sh, p in batch:
            lines += ['new'] + p
        rc, o, e = ctx.driver(['tree'], inp=('\n'.join(hdr + lines) + '\n').encode(), timeout=1800)
        out = o.decode('latin1').splitlines()[0::2]
        pos = 0
        newfront = []
        for sh, p in batch:
            pos += len(p)
            last = out[pos - 1]
            shape = last.split(' | ')[1].split(' ', 3)[3] if ' | ' in last else last
            hist.append((['new'], p))
            if shape not in seen and len(seen) < maxstates:
                seen[shape] = p
                newfront.append(shape)
        frontier = newfront
    return hdr, hist, len(seen)


def tree_check(ctx, props, focus, replay=None):
    exe = prepare(ctx, props, 'h_tree', CORE_SRCS, ['h_tree.c'])
    if exe is None:
        ctx.finish('build failed')
    rng = ctx.rng
    quick = ctx.tier == 'quick'
    if replay:
        d = json.load(open(replay))
        ops = d.get('replay', {}).get('ops')
        if not ops:
            print(json.dumps(d, indent=1)[:3000])
            print('VIOLATION property=%s replay=%s no-failing-input-found' % (ctx.pid, replay))
            sys.exit(1)
        hdr = [o for o in ops if o.split()[0] in ('cmp', 'new', 'dump')]
        body = [o for o in ops if o.split()[0] not in ('cmp', 'new', 'dump')]
        nb = run_histories(ctx, exe, [(hdr, body)], 'replay', focus)
        if ctx.violations or ctx.broken or ctx.known_hits:
            for _, _, rp in ctx.violations:
                print('VIOLATION property=%s replay=%s' % (ctx.pid, rp))
            for k, dd in ctx.broken:
                print('BROKEN', k, dd)
            sys.exit(1 if (ctx.violations or ctx.broken) else 0)
        print('replay: implementation agrees with model and specification on this history')
        sys.exit(0)
    hists = []
    # (weights: put get remove clear size min max walk near)
    mixes = {
        'map': [30, 20, 20, 1, 4, 4, 4, 2, 2],
        'shape': [45, 5, 40, 0, 1, 1, 1, 1, 1],
        'walk': [20, 2, 15, 1, 1, 1, 1, 45, 8],
        'near': [22, 2, 18, 1, 1, 1, 1, 8, 40],
    }
    emphasis = {'C01': 'map', 'C02': 'shape', 'C03': 'walk', 'C04': 'near'}[focus]
    nh = 150 if quick else 2500
    for i in range(nh):
        mixname = emphasis if i % 3 else rng.choice(list(mixes))
        kind = rng.choice(['small', 'small', 'str', 'bin', 'case'])
        nk = rng.choice([3, 6, 10, 16, 26]) if kind == 'small' else rng.choice([6, 20, 40])
        keys = key_universe(rng, nk, kind)
        cmpn = rng.choice(['byte', 'default', 'default', 'rev', 'len', 'ci', 'errno', 'big', 'ext']) if kind != 'case' else 'ci'
        hists.append((['cmp ' + cmpn, 'dump 1'], gen_history(rng, 150 if quick else 300, keys, mixes[mixname])))
    # histories with more than 256 traversal starts (8-bit epoch) and root changes in between
    for i in range(2 if quick else 12):
        keys = key_universe(rng, rng.choice([2, 3, 5, 8]), 'small')
        ops = []
        for j in range(300):
            ops.append('walk %d' % rng.choice([len(keys) + 2, len(keys) + 2, 1, 2, 0]))
            if rng.random() < 0.3:
                ops.append(rng.choice(['put %s 01' % hexs(rng.choice(keys)), 'remove %s' % hexs(rng.choice(keys)),
                                       'near %s %d' % (hexs(rng.choice(keys)), rng.choice([0, 1, len(keys) + 2]))]))
        hists.append((['cmp byte', 'dump 1'], ops))
    # directed at the 8-bit traversal-epoch wrap: start with the sequencer just below 256 (settid is only used on an empty,
    # fresh table, a state reachable by walks over a key that was removed again), then insert NEW keys between walks
    for i in range(12 if quick else 80):
        keys = key_universe(rng, rng.choice([4, 8, 12]), 'small')
        pre = ['settid %d' % rng.choice([250, 252, 253, 254, 255])]
        ops = []
        for k in rng.sample(keys, len(keys) // 2):
            ops.append('put %s 01' % hexs(k))
        for j in range(40):
            r = rng.random()
            if r < 0.45:
                ops.append('walk %d' % rng.choice([len(keys) + 2, len(keys) + 2, 1, 2]))
            elif r < 0.75:
                ops.append('put %s 02' % hexs(rng.choice(keys)))
            elif r < 0.9:
                ops.append('remove %s' % hexs(rng.choice(keys)))
            else:
                ops.append('near %s %d' % (hexs(rng.choice(keys)), len(keys) + 2))
        hists.append((['cmp byte', 'dump 1'] + pre, ops))
    # stale marks of an abandoned walk meet the same epoch again 256 resets later
    for i in range(3 if quick else 12):
        keys = key_universe(rng, 6, 'small')
        ops = ['put %s 01' % hexs(k) for k in keys]
        ops += ['walk %d' % rng.choice([1, 2, 3])]
        ops += ['walk 8'] * 127 + ['walk 8', 'walk 8']
        hists.append((['cmp byte', 'dump 1'], ops))
    # marks of an abandoned walk must not survive the epoch wrap: abandon a walk after k nodes, drive the sequencer once
    # around with 255 one-step walks (they re-mark only the first node), then walk completely with the same epoch value
    for i in range(3 if quick else 10):
        keys = key_universe(rng, rng.choice([6, 8, 12]), 'small')
        ops = ['put %s 01' % hexs(k) for k in keys]
        ops += ['walk %d' % rng.choice([2, 3, 5])]
        if rng.random() < 0.5:
            ops += ['put %s 02' % hexs(bytes([0x41 + j, 0])) for j in range(rng.choice([1, 3]))]
        ops += ['walk 1'] * 255 + ['walk %d' % (len(keys) + 6)]
        hists.append((['cmp byte', 'dump 1', 'settid %d' % rng.choice([200, 250, 254])], ops))
    # the wrap of the sequencer may fall on the reset at the END of a complete walk (after an odd number of abandoned walks): the marks
    # of that walk (255 on every node) must not survive it - a abandoned walks, (255-a)/2 complete walks, p abandoned walks, complete walk
    for a_ in (1, 3, 5):
        for p_ in (252, 253, 254):
            keys = key_universe(rng, 6, 'small')
            ops = ['put %s 01' % hexs(k) for k in keys]
            ops += ['walk 1'] * a_ + ['walk 8'] * ((255 - a_) // 2) + ['walk 1'] * p_ + ['walk 8', 'walk 8']
            hists.append((['cmp byte', 'dump 1'], ops))
    # a node released by remove must not bring an old mark back: complete walk, remove, drive the sequencer around (r walk starts,
    # on this table or on another one), insert NEW keys, walk completely
    for r in ([250, 252, 253, 254, 255, 256, 257, 506, 509, 510, 511, 512] if not quick else [252, 253, 254, 255, 256, 510]):
        keys = key_universe(rng, 8, 'small')
        ops = ['put %s 01' % hexs(k) for k in keys[:6]]
        ops += ['walk 9', 'remove %s' % hexs(keys[2]), 'remove %s' % hexs(keys[4])]
        ops += (['walk 1'] * r) if r % 2 else (['walk 1'] * (r // 2) + ['otherwalk %d' % (r // 2)] + ['walk 1'] * (r - r // 2 - 1) + ['otherwalk 1'])
        ops += ['put %s 02' % hexs(keys[6]), 'walk 9', 'put %s 03' % hexs(keys[7]), 'walk 9', 'put %s 04' % hexs(keys[2]), 'walk 9']
        hists.append((['cmp byte', 'dump 1'], ops))
    # a low block of keys put in ascending order, then a higher block put in descending order (long left-leaning red-rich paths):
    # probe every key and every gap; the climb from a node without left subtree is as long as the tree is deep
    for (na, nd) in ([(8, 14), (6, 20), (12, 12)] if quick else [(a, d) for a in (4, 6, 8, 10, 12, 16) for d in (8, 12, 14, 16, 20, 30)]):
        ks = [bytes([0x30 + i // 10, 0x30 + i % 10, 0x35]) for i in range(na + nd)]
        ops = ['put %s 01' % hexs(k) for k in ks[:na]] + ['put %s 01' % hexs(k) for k in reversed(ks[na:])]
        for k in ks:
            ops += ['near %s 0' % hexs(k), 'near %s 1' % hexs(k[:2] + b'\x34'), 'near %s %d' % (hexs(k[:2] + b'\x36'), na + nd + 2)]
        hists.append((['cmp byte', 'dump 0'], ops))
    # chains of keys that are prefixes of one another (binary, with NULs): every stored key, every proper prefix of one and every
    # one-byte extension is probed from a buffer of its own, under both orderings
    for chain in ([b'a', b'ab', b'abc', b'abcd', b'abd', b'b', b'ba'], [b'\0', b'\0\0', b'\0\0\0', b'\0\1', b'\1', b'\1\0'],
                  [b'key', b'key\0', b'key\0x', b'keys', b'kez', b'k'], [b'abcdefgh', b'abcdefghi', b'abcdefg', b'abcdefgh\0', b'abcdefgi']):
        for sub in (chain, chain[1:], chain[::2], chain[1::2]):
            probes = list(dict.fromkeys([k[:j] for k in chain for j in range(1, len(k) + 1)] + [k + b for k in chain for b in (b'\0', b'\xff')]))
            for cmpname in ('default', 'byte', 'rev', 'big', 'ext'):
                ops = ['put %s 01' % hexs(k) for k in sub]
                for q in probes:
                    ops.append('near %s %d' % (hexs(q), rng.choice([0, 1, len(sub) + 2])))
                hists.append((['cmp ' + cmpname, 'dump 0'], ops))
    # fills in strictly descending and strictly ascending order to the sizes 2^(k+1)-2 (deepest legal left spine) and neighbours; then
    # every key, the smallest, the greatest and absent keys are looked up with the comparisons counted (bound 2*log2(n+1))
    for n in ([6, 14, 30, 62, 63] if quick else [6, 14, 30, 33, 62, 63, 126, 254, 510, 1022]):
        ks = [b'%05d' % i for i in range(1000, 1000 + 2 * n, 2)]
        for order in (list(reversed(ks)), ks):
            ops = ['put %s 01' % hexs(k) for k in order]
            ops += ['get %s' % hexs(k) for k in (ks if n <= 126 else ks[:40] + ks[-40:])] + ['get %s' % hexs(b'00000'), 'get %s' % hexs(b'99999'), 'get %s' % hexs(ks[0] + b'x')]
            hists.append((['cmp byte', 'dump 0'], ops))
    # large histories, structure summarised
    for i in range(1 if quick else 6):
        nk = 600 if quick else rng.choice([1000, 3000, 5000])
        keys = key_universe(rng, nk, 'str')
        hists.append((['cmp ' + rng.choice(['byte', 'rev']), 'dump 0'], gen_history(rng, 2500 if quick else 12000, keys, mixes[emphasis][:7] + [0.2, 0.5])))
    nb = run_histories(ctx, exe, hists, 'random', focus)
    # the same histories on an unoptimised build of library and harness (-O0): code whose meaning rests on signed overflow or on the
    # evaluation order behaves differently there (e.g. the negation of a comparator result of INT_MIN); search only, same oracle
    exe0, msg0 = ctx.cc('h_tree_O0', CORE_SRCS, ['h_tree.c'], cflags=['-O0'])
    if exe0 is None:
        ctx.notes.append('unoptimised build unavailable: ' + msg0[-300:])
    else:
        sub0 = [h for i, h in enumerate(hists) if quick or i % 4 == 0 or h[0][0] in ('cmp ext', 'cmp big')]
        nb += run_histories(ctx, exe0, sub0, 'random-O0', focus)
    # bounded-exhaustive: every reachable shape over K keys, every put/remove from it
    K = 8 if quick else 12
    hdr, bh, nstates = bfs_shapes(ctx, K)
    nb += run_histories(ctx, exe, [(hdr + h, p) for h, p in bh], 'exhaustive', focus)
    # hidden shared state inside the library (e.g. file-scope statics) would let one table's operation disturb another's:
    # threads working on private tables in parallel must each see a valid tree with exactly their own keys
    exc, msgc = ctx.cc('h_conc', CORE_SRCS, ['h_conc.c'])
    if exc is not None:
        for rep in range(2 if quick else 10):
            rc, o, er = ctx.run([exc, 'twotables', '4', '400', str(ctx.seed * 10 + rep)], timeout=120)
            ctx.cov['evaluations'] += 1
            ctx.count('private-tables-in-parallel')
            if rc != 0:
                line = (o.decode('latin1').strip().splitlines() or ['(no output, exit %s)' % rc])[-1]
                ctx.report('schedule', {'op': 'put', 'observed': 'private-table-disturbed-by-another-thread'},
                           'threads on private tables: ' + line[:200], {'cmd': 'h_conc twotables 4 400 %d' % (ctx.seed * 10 + rep), 'output': (o + er).decode('latin1')[-1500:]})
                break
    ctx.cov['states'] = nstates
    ctx.cov['transitions'] = len(bh)
    ctx.cov['exhaustive'] = False
    ctx.cov['exhaustive_note'] = 'all %d tree shapes reachable over %d keys, every put/remove from each (lockstep with the model); random histories beyond' % (nstates, K)
    ctx.cov['correspondence_mismatches'] = nb
    ctx.cov['traces_validated_against_impl'] = len(hists) + len(bh)
    ctx.assumptions += ['comparators used: qtreetbl_byte_cmp, its reverse, length-then-bytes, case-insensitive (byte-different keys compare equal); all satisfy the three comparator laws of the theorems',
                        'caller buffers are exact-size heap blocks scribbled and freed after each call; getnext/find_nearest use newmem=true']
    ctx.finish('random operation histories (mix emphasised on %s) over small/str/binary key universes and 3 comparators, histories with >256 traversal starts, '
               'large histories, and every put/remove from every tree shape over %d keys; every op: impl vs extracted spec (monitor) and impl vs extracted model incl. full coloured shape; '
               'distinct_nontrivial = distinct (num,tid,check,shape) structures observed' % (emphasis, K))
