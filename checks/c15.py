# C15 - allocation failure is reported and leaves containers unchanged and valid.
#   obligations    : Properties_C15.v (scripts of every allocating operation: atomic on failure, legal events, nothing leaked, fault-free agreement)
#   monitor        : harness/h_api.c built with --wrap: instance A (fault injected at the k-th request / from the k-th on) against the never-injected
#                    instance B after EVERY op (failure => unchanged, success => correct), self-checks, leak / double-free census, lock depth,
#                    and a plain reference model of the contents
#   correspondence : the recorded allocator/copy events of every call against the extracted allocation scripts (ocaml/d_alloc.ml)
from alloccommon import *


def run(ctx, replay=None):
    quick = ctx.tier == 'quick'
    exe = prepare(ctx, ['Properties_C15'], 'h_api', CORE_SRCS, ['h_api.c'], wrap=WRAP, cov=True)
    if exe is None:
        ctx.finish('allocation-failure atomicity: proofs over allocation scripts + fault-injection sweep')
    if replay:
        globals()['replay_fn'](ctx, exe, replay, 'C15')
        ctx.finish('replay')
    rng = ctx.rng
    H = all_hists(rng, quick)
    good, sizes = evaluate(ctx, exe, H, 'C15')
    inj = []
    for h, recs in good:
        ti = h.target_index()
        if ti < len(recs) and 'nreq' in recs[ti]:
            ctx.count('target-ops-by-requests:%d' % recs[ti]['nreq'])
            inj += inject_variants(h, recs[ti]['nreq'])
    if not quick:                                     # random histories with one failure somewhere in the middle, several seeds
        R = random_hists(rng, 3000, 80)
        rg, _ = evaluate(ctx, exe, R, 'C15')
        for h, recs in rg:
            for _ in range(3):
                g = rand_inject(rng, h, recs)
                if g:
                    inj.append(g)
    ctx.count('injected-histories', len(inj))
    gi, _ = evaluate(ctx, exe, inj, 'C15')
    fired = sum(1 for h, recs in gi if any(d.get('inj') for d in recs))
    ctx.count('histories-in-which-the-injection-fired', fired)
    for h, recs in gi[:: max(1, len(gi) // 4)]:
        sample_hist(ctx, h, recs)
    if not quick:
        exa, msg = ctx.cc('h_api_asan', CORE_SRCS, ['h_api.c'], wrap=WRAP, san='asan', cflags=('-DQV_ASAN',))
        if exa is None:
            ctx.broken.append(('obligation:build-asan', msg))
        else:
            res, found = run_asan(ctx, exa, inj, 'C15')
            ctx.count('asan-histories', len(res))
            for h, kind, err, _ in found:
                ctx.report('impl-vs-property', {'container': h.typ, 'op': opkind(h.target) if h.target != 'new' else 'new', 'observed': 'sanitizer', 'kind': kind.split(':')[-1].strip()},
                           'sanitizer report under fault injection: ' + kind, {'ops': h.lines(), 'stderr': err})
            for h, recs in res:
                for pids, sg, title, i in monitor(h, recs):
                    if 'C15' in pids:
                        ctx.report('impl-vs-property', {k: v for k, v in sg.items() if k not in ('alloc', 'expected')}, title + ' (asan build)', {'ops': h.lines(), 'failing_line': i})
    ctx.finish('allocation-failure atomicity: theorems over allocation scripts for all oracles; tie = A/B fault-injection sweep (every allocating op x corpus of prefix states x '
               'every request position, single and from-k-on) + ledger correspondence with the extracted scripts',
               extra_cov={'gcov_anchor_functions': gcov_report(ctx, 'h_api'),
                          'note': 'calls-with-lock-depth-delta-0 counts API calls (including failing ones) that returned with the lock depth they were entered with (C14 evidence)'})


replay_fn = replay
