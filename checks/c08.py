# C08 — the list table is an exact ordered multimap under all 16 option combinations.
# History generators, lockstep run of implementation / extracted model / extracted specification, property monitor
# (implementation vs specification: observation AND the whole entry sequence after every op, chain links verified by the
# harness), correspondence (implementation vs model incl. stored hashes and file bytes), delta-debugging shrinker.
import itertools
from vlib import *

AREA = 'listtbl'
SHRUNK = {}
NAMES = [b'a', b'A', b'ab', b'Ab', b'aB', b'b', b'B', b'']
FUNCS = ['qlisttbl_put', 'qlisttbl_putstr', 'qlisttbl_putint', 'qlisttbl_get', 'qlisttbl_getstr', 'qlisttbl_getint', 'qlisttbl_getmulti',
         'qlisttbl_freemulti', 'qlisttbl_remove', 'qlisttbl_removeobj', 'qlisttbl_getnext', 'qlisttbl_size', 'qlisttbl_sort',
         'qlisttbl_clear', 'qlisttbl_save', 'qlisttbl_load', 'newobj', 'insertobj', 'findobj', 'namematch', 'namecasematch']


def hn(name):
    """name argument: None -> N (NULL)"""
    return 'N' if name is None else hexs(name)


def rand_str(rng):
    r = rng.random()
    if r < 0.15:
        return b''
    if r < 0.6:
        return bytes(rng.choice(b'xyz019 ') for _ in range(rng.randrange(1, 5)))
    if r < 0.8:      # printable incl. every character that matters to the text format
        return bytes(rng.choice(b'a=#% +\t&:/\\"\'~-_.!?') for _ in range(rng.randrange(1, 9)))
    return bytes(rng.randrange(1, 256) for _ in range(rng.randrange(1, 12)))     # non-printable, no NUL


def rand_data(rng):
    r = rng.random()
    if r < 0.5:
        return rand_str(rng) + b'\0'
    if r < 0.7:
        return bytes(rng.randrange(256) for _ in range(rng.randrange(1, 9)))
    if r < 0.8:
        return bytes(rng.choice(b'0123456789') for _ in range(rng.randrange(1, 4)))   # digits without terminator
    return rand_str(rng) + b'\0' + rand_str(rng)


def rm_pattern(rng, n):
    r = rng.random()
    if r < 0.25:
        return '-'
    if r < 0.4:
        return '1' * max(n, 1)
    if r < 0.55:
        return '1'                                   # the first entry handed out
    if r < 0.7:
        return '0' * max(n - 1, 0) + '1'             # the last one
    return ''.join(rng.choice('01') for _ in range(max(n, 1)))


def gen_history(rng, nops, names, mix, safe_text):
    """mix: weights for put putstr putint get getstr getint getmulti remove walk size sort clear save reload load."""
    kinds = ['put', 'putstr', 'putint', 'get', 'getstr', 'getint', 'getmulti', 'remove', 'walk', 'size', 'sort', 'clear', 'save', 'reload', 'load']
    ops = []
    approx = 0        # upper bound of the table size; saved: upper bound of the number of entries in the saved file
    saved = 0
    for _ in range(nops):
        k = rng.choices(kinds, weights=mix)[0]
        if k == 'reload' and approx + saved > 400:      # reload appends the saved entries: keep the growth bounded
            k = 'clear'
        nm = rng.choice(names)
        nmo = nm if rng.random() > 0.04 else None
        nm_or_all = nmo if rng.random() < 0.7 else None
        if k == 'put':
            d = (rand_str(rng) + b'\0') if safe_text else rand_data(rng)
            if rng.random() < 0.03:
                d = b''
            ops.append('put %s %s' % (hn(nmo), hexs(d))); approx += 1
        elif k == 'putstr':
            s = rand_str(rng)
            ops.append('putstr %s %s' % (hn(nmo), 'N' if rng.random() < 0.03 else hexs(s))); approx += 1
        elif k == 'putint':
            z = rng.choice([0, 1, -1, 42, -42, 2 ** 63 - 1, -2 ** 63, rng.randrange(-2 ** 63, 2 ** 63), rng.randrange(-1000, 1000)])
            ops.append('putint %s %d' % (hexs(nm), z)); approx += 1
        elif k in ('get', 'getstr'):
            ops.append('%s %s %d' % (k, hn(nmo), rng.randrange(2)))
        elif k == 'getint':
            ops.append('getint %s' % hexs(nm))
        elif k == 'getmulti':
            ops.append('getmulti %s %d' % (hn(nm_or_all), rng.randrange(2)))
        elif k == 'remove':
            ops.append('remove %s' % hn(nmo))
        elif k == 'walk':
            n = rng.choice([0, 1, 2, 3, approx + 2, approx + 2, approx + 2, 1000])
            rd = (' ' + hexs(rng.choice([x for x in names if x] or [b'k']))) if rng.random() < 0.25 else ''    # reads of one key between the steps
            ops.append('walk %s %d %s %d%s' % (hn(nm_or_all), n, rm_pattern(rng, min(n, approx + 1)), rng.randrange(2), rd))
        elif k == 'save':
            saved = approx
            if safe_text:
                ops.append('save 61 1')
            else:
                ops.append('save %d %d' % (rng.choice([61, 61, 58, 32, 9, 35, 37, 97, 0, 10]), rng.choice([1, 1, 0])))
        elif k == 'reload':
            approx += saved
            if safe_text:
                ops.append('reload 61 1')
            else:
                ops.append('reload %d %d' % (rng.choice([61, 61, 58, 32, 35, 97]), rng.choice([1, 1, 0])))
        elif k == 'load':
            ops.append('load %d %d %s' % (rng.choice([61, 61, 58, 32]), rng.randrange(2), hexs(rand_file(rng)))); approx += 6
        else:
            ops.append(k)
            if k == 'clear':
                approx = 0
    return ops


def rand_file(rng):
    lines = []
    for _ in range(rng.choice([0, 1, 2, 3, 6])):
        r = rng.random()
        if r < 0.15:
            lines.append(b'#' + rand_str(rng))
        elif r < 0.25:
            lines.append(rng.choice([b'', b' ', b'\t \r', b'  # indented comment', b'=', b' = ', b'novalue', b'a=', b'=v', b'a=b=c', b'a = %zz', b'a=%', b'a=%4', b'a=x%00y', b'A=+%2B']))
        else:
            nm = rng.choice(NAMES + [b' a ', b'a b', b'#x', b'\ta'])
            v = rand_str(rng)
            if rng.random() < 0.5:
                v = ''.join(chr(c) if chr(c).isalnum() and c < 128 else '%%%02x' % c for c in v).encode()
            sp = rng.choice([b'', b' ', b'\t'])
            lines.append(nm + sp + b'=' + sp + v + rng.choice([b'', b'', b'%00', b'\r', b' ']))
    body = b'\n'.join(lines)
    if lines and rng.random() < 0.7:
        body += b'\n'
    if rng.random() < 0.05:
        body = body[:len(body) // 2] + b'\0' + body[len(body) // 2:]
    return body


# ---------------------------------------------------------------------------------------------- monitor
def split_line(l):
    if ' | ' in l:
        o, s = l.split(' | ', 1)
        return o, s
    return l, ''


def impl_entries(struct):
    """'num=3 chain=ok h:n=d,h:n=d' -> (num, chain, [n=d,...])"""
    m = re.match(r'num=(\d+) chain=(\S+) ?(.*)$', struct)
    if not m:
        return None, 'unparsed', []
    ents = [x.split(':', 1)[1] for x in m.group(3).split(',') if x]
    return int(m.group(1)), m.group(2), ents


def monitor(opline, impl, spec, flags):
    """Property monitor: implementation line vs specification line. Returns a signature dict or None."""
    kind = opline.split()[0]
    if impl in ('DEAD', 'MISSING') or spec in ('S DEAD', 'MISSING', 'S ??'):
        return None
    if impl in ('CRASH', 'TIMEOUT'):
        return {'op': kind, 'observed': impl.lower()}
    iobs, istruct = split_line(impl)
    sobs, sents = split_line(spec[2:] if spec.startswith('S ') else spec)
    num, chain, ients = impl_entries(istruct)
    want = [x for x in sents.split(',') if x]
    if chain != 'ok':
        return {'op': kind, 'observed': 'chain-' + chain}
    if kind in ('load', 'reload'):
        # the two clauses of the property about load: same entries in the same order; number of loaded entries
        if ients != want:
            if sorted(ients) == sorted(want):
                return {'op': 'load', 'observed': 'wrong-order', 'inserttop': bool(flags & 4)}
            return {'op': 'load', 'observed': 'wrong-entries'}
        if iobs != sobs:
            return {'op': 'load', 'observed': 'wrong-count', 'returned': iobs if iobs in ('0', '-1') else 'other'}
        if num != len(ients):
            return {'op': 'load', 'observed': 'size-not-exact'}
        return None
    if kind == 'save':
        # the file format itself is not part of the property (its bytes are compared with the model); success is
        if iobs.split(' ')[0] != sobs.split(' ')[0]:
            return {'op': 'save', 'observed': 'wrong-result'}
    elif kind == 'walk':
        if iobs != sobs:
            ip, sp = iobs.split(' '), sobs.split(' ')
            if ip[1] != sp[1] and ip[2:] == sp[2:]:
                return {'op': 'walk', 'observed': 'wrong-end'}
            ik, sk = [x for x in ip[2].split(',') if x], [x for x in sp[2].split(',') if x]
            if ik != sk:
                if sorted(ik) == sorted(sk):
                    return {'op': 'walk', 'observed': 'wrong-order'}
                return {'op': 'walk', 'observed': 'missing-entries' if len(ik) < len(sk) else 'wrong-sequence'}
            return {'op': 'walk', 'observed': 'removeobj-result'}
    elif iobs != sobs:
        return {'op': kind, 'observed': 'wrong-result'}
    if ients != want:
        if sorted(ients) == sorted(want):
            return {'op': kind, 'observed': 'wrong-order'}
        return {'op': kind, 'observed': 'wrong-entries'}
    if num != len(ients):
        return {'op': kind, 'observed': 'size-not-exact'}
    return None


def run_histories(ctx, exe, histories, label):
    """histories: list of (flags, ops). All through one harness / one driver invocation. Returns #correspondence mismatches."""
    lines, index = [], []
    for hi, (fl, ops) in enumerate(histories):
        lines.append('new %d' % fl)
        for oi, o in enumerate(ops):
            lines.append(o)
            index.append((hi, oi))
    data = ('\n'.join(lines) + '\n').encode()
    rc1, o1, e1 = ctx.run([exe], inp=data, timeout=1800)
    rc2, o2, e2 = ctx.driver([AREA], inp=data, timeout=1800)
    il = o1.decode('latin1').splitlines()
    dl = o2.decode('latin1').splitlines()
    ml, sl = dl[0::2], dl[1::2]
    if rc1 != 0:
        ctx.broken.append(('correspondence:%s-harness' % label, 'harness exit %s: %s' % (rc1, e1.decode('latin1')[-400:])))
    if rc2 != 0:
        ctx.broken.append(('correspondence:%s-driver' % label, 'driver exit %s: %s' % (rc2, e2.decode('latin1')[-400:])))
    nbad = 0
    failed_hist, diverged = set(), set()
    for n, (hi, oi) in enumerate(index):
        a = il[n] if n < len(il) else 'MISSING'
        m = ml[n][2:] if n < len(ml) else 'MISSING'
        s = sl[n] if n < len(sl) else 'MISSING'
        fl, ops = histories[hi]
        kind = ops[oi].split()[0]
        ctx.cov['evaluations'] += 1
        ctx.count(label + ':' + kind)
        ctx.count('cfg:%d' % fl)
        if hi in failed_hist:
            continue
        if ' | ' in a and hi not in diverged and oi > 0:
            ctx.distinct.add((fl, a.split(' | ')[1]))
        sig = monitor(ops[oi], a, s, fl)
        if sig is not None:
            failed_hist.add(hi)
            key = json.dumps(sig, sort_keys=True)
            ctx.count('monitor-hit:' + key)
            if key in SHRUNK:          # one shrunk replay per distinct signature; further hits are only counted
                ctx.report('impl-vs-spec', sig, SHRUNK[key][0], SHRUNK[key][1])
                continue
            small = shrink(ctx, exe, fl, ops[:oi + 1], sig)
            SHRUNK[key] = ('list table (options %s): %s %s' % (flagstr(fl), sig['op'], sig['observed']),
                           {'ops': ['new %d' % fl] + small, 'failing_op': small[-1] if small else ops[oi], 'impl': a[:600], 'spec': s[:600], 'model': m[:600]})
            ctx.report('impl-vs-spec', sig, 'list table (options %s): %s %s' % (flagstr(fl), sig['op'], sig['observed']),
                       {'ops': ['new %d' % fl] + small, 'failing_op': small[-1] if small else ops[oi], 'impl': a[:600], 'spec': s[:600], 'model': m[:600]})
            continue
        if a != m and hi not in diverged:
            nbad += 1
            diverged.add(hi)
            if nbad <= 3:
                ctx.broken.append(('correspondence:%s' % label, 'options %s op %d `%s`:\n impl : %s\n model: %s\n(prefix: %s)' % (
                    flagstr(fl), oi, ops[oi][:300], a[:500], m[:500], ' ; '.join(x[:80] for x in ops[max(0, oi - 12):oi]))))
    if histories:
        fl, ops = histories[len(histories) // 2]
        ctx.sample({'history': label, 'options': flagstr(fl), 'ops': ops[:12], 'impl_last_line': il[-1][:300] if il else ''})
    return nbad


def flagstr(fl):
    return '+'.join(n for b, n in ((1, 'UNIQUE'), (2, 'CASEINSENSITIVE'), (4, 'INSERTTOP'), (8, 'LOOKUPFORWARD')) if fl & b) or 'none'


def shrink(ctx, exe, fl, ops, sig):
    """Delta debugging: drop ops while the same signature is still produced."""
    def fails(cand):
        data = ('\n'.join(['new %d' % fl] + cand) + '\n').encode()
        rc1, o1, _ = ctx.run([exe], inp=data, timeout=60)
        rc2, o2, _ = ctx.driver([AREA], inp=data, timeout=60)
        il = o1.decode('latin1').splitlines()
        sl = o2.decode('latin1').splitlines()[1::2]
        for i, o in enumerate(cand):
            a = il[i] if i < len(il) else 'MISSING'
            s = sl[i] if i < len(sl) else 'MISSING'
            if monitor(o, a, s, fl) == sig:
                return i
        return None
    cur = list(ops)
    if len(cur) > 400:
        return cur
    n, budget = 2, 150
    while len(cur) >= 2 and budget > 0:
        chunk = max(1, len(cur) // n)
        removed = False
        for start in range(0, len(cur), chunk):
            cand = cur[:start] + cur[start + chunk:]
            budget -= 1
            if not cand:
                continue
            r = fails(cand)
            if r is not None:
                cur = cand[:r + 1]
                n = max(n - 1, 2)
                removed = True
                break
            if budget <= 0:
                break
        if not removed:
            if chunk == 1:
                break
            n = min(n * 2, len(cur))
    return cur


# ---------------------------------------------------------------------------------------------- directed generators
def small_tables(L, names):
    for n in range(L + 1):
        for seq in itertools.product(names, repeat=n):
            yield list(seq)


def exhaustive(L):
    """every table built by <= L puts over {a, A, b}, every probe op from it, all 16 option sets"""
    names = [b'a', b'A', b'b']
    hists = []
    for fl in range(16):
        for seq in small_tables(L, names):
            pre = ['putstr %s %s' % (hexs(nm), hexs(b'v%d' % i)) for i, nm in enumerate(seq)]
            n = len(seq)
            probes = []
            for nm in names:
                probes += ['get %s 0' % hexs(nm), 'getmulti %s 1' % hexs(nm), 'remove %s' % hexs(nm), 'putstr %s 77' % hexs(nm)]
            probes += ['sort', 'size', 'getmulti N 0', 'save 61 1 ; clear ; reload 61 1']
            for name in ([None] + names if n < 4 else [None, b'a']):      # 4-entry tables: unfiltered walks and walks for one name
                for k in range(0, n + 2):
                    pats = ['-'] if min(k, n) == 0 else [''.join(p) for p in itertools.product('01', repeat=min(k, n))]
                    for rm in pats:
                        probes.append('walk %s %d %s %d' % (hn(name), k, rm, (k + len(rm)) & 1))
            for p in probes:
                hists.append((fl, pre + p.split(' ; ') + ['size']))
    return hists


def directed(rng, quick):
    hists = []
    for fl in range(16):
        # duplicate keys at head / middle / tail, keys that differ only in case; every single-entry removal during a walk
        for shape in (['a', 'x', 'a', 'y', 'a'], ['A', 'a', 'x', 'a'], ['x', 'a', 'A', 'aB', 'Ab', 'ab'], ['a'], ['a', 'a'], ['x', 'a'], ['a', 'x']):
            pre = ['putstr %s %s' % (hexs(s.encode()), hexs(b'%d' % i)) for i, s in enumerate(shape)]
            n = len(shape)
            for name in (None, b'a', b'A', b'ab', b'zz'):
                for pos in range(n):
                    rm = '0' * pos + '1'
                    hists.append((fl, pre + ['walk %s %d %s 1' % (hn(name), n + 1, rm), 'size', 'getmulti N 0', 'walk N %d - 0' % (n + 1)]))
                hists.append((fl, pre + ['walk %s %d %s 0' % (hn(name), n + 1, '1' * n), 'size', 'putstr 61 39', 'walk N 9 - 1']))
                hists.append((fl, pre + ['remove %s' % hn(name), 'size', 'get 61 1', 'getmulti %s 0' % hn(name)]))
            hists.append((fl, pre + ['sort', 'getmulti N 1', 'walk N 99 - 1', 'sort']))
            hists.append((fl, pre + ['save 61 1', 'clear', 'reload 61 1', 'size', 'save 61 1', 'reload 61 1', 'size']))
        # save/load of arbitrary printable and non-printable string values
        for _ in range(2 if quick else 10):
            ops = []
            for i in range(rng.randrange(1, 8)):
                ops.append('putstr %s %s' % (hexs(rng.choice([b'k1', b'k2', b'K1', b'key.3', b'k-4', b'k 5'])), hexs(rand_str(rng))))
            ops += ['save 61 1', 'clear', 'reload 61 1', 'size', 'getmulti N 1']
            hists.append((fl, ops))
        # all 255 non-NUL byte values in one value
        allb = bytes(range(1, 256))
        hists.append((fl, ['putstr 6b %s' % hexs(allb), 'putstr 6b32 %s' % hexs(allb[::-1]), 'save 61 1', 'clear', 'reload 61 1', 'get 6b 1']))
    # NULL / empty arguments
    for fl in (0, 1, 15):
        hists.append((fl, ['put N 3100', 'put 61 -', 'putstr N 31', 'putstr 61 N', 'putstr 61 -', 'putstr - 31', 'get N 0', 'getstr N 1', 'get - 1', 'remove N',
                           'getmulti N 0', 'getmulti N 1', 'walk N 3 - 0', 'size', 'loadnofile', 'load 61 1 -', 'sort', 'clear', 'sort', 'walk N 1 1 0',
                           'remove 61', 'getint 61', 'putstr 61 2031320a', 'getint 61', 'putstr 62 2b39393939393939393939393939393939393939', 'getint 62',
                           'put 63 313233', 'getint 63', 'save 61 0', 'putint 64 -9223372036854775808', 'getint 64', 'getstr 64 1']))
    return hists


def colliding_names():
    """two different names with the same 32-bit murmur3 value (the list table caches that hash per entry)"""
    from harrcommon import murmur3_32
    if murmur3_32(b'qrzrd') == murmur3_32(b'kjppa'):
        return [b'qrzrd', b'kjppa']
    import random
    r = random.Random(12345); seen = {}
    for _ in range(400000):
        k = bytes(r.randrange(97, 123) for _ in range(5))
        h = murmur3_32(k)
        if h in seen and seen[h] != k:
            return [seen[h], k]
        seen[h] = k
    return [b'a', b'b']


def prefix_twin_histories():
    """a name and an extension of it with the same cached hash: names are equal only as whole strings"""
    from harrcommon import murmur3_32
    from c05 import PREFIX_TWINS
    hists = []
    for short, long_ in PREFIX_TWINS:
        if murmur3_32(short) != murmur3_32(long_):
            continue
        for fl in (0, 1, 2, 3, 4, 8, 12):
            for a, b in ((short, long_), (long_, short)):
                ops = ['putstr %s 31' % hexs(a), 'getstr %s 1' % hexs(b), 'getmulti %s 0' % hexs(b), 'remove %s' % hexs(b), 'size',
                       'putstr %s 32' % hexs(b), 'size', 'getstr %s 0' % hexs(a), 'getstr %s 0' % hexs(b), 'getmulti %s 1' % hexs(a),
                       'walk %s 5 - 0' % hexs(a), 'putstr %s 33' % hexs(a), 'size', 'walk N 5 - 0', 'remove %s' % hexs(a), 'size', 'getstr %s 1' % hexs(b)]
                hists.append((fl, ops))
    return hists


def sort_histories(rng, quick):
    hists = []
    col = colliding_names()
    # equal cached hashes but different names: inserted larger-first, sorted, looked up, removed
    for fl in range(16):
        for order in (col, col[::-1], [col[1], b'm', col[0]], [b'z', col[1], col[0], b'a', col[1]]):
            ops = ['putstr %s %s' % (hexs(nm), hexs(b'%d' % i)) for i, nm in enumerate(order)]
            ops += ['sort', 'walk N 9 - 0', 'getmulti %s 0' % hexs(col[0]), 'getmulti %s 0' % hexs(col[1]), 'getstr %s 1' % hexs(col[0]), 'remove %s' % hexs(col[1]), 'sort', 'walk N 9 - 0', 'size']
            hists.append((fl, ops))
    for _ in range(40 if quick else 400):
        fl = rng.randrange(16)
        n = rng.choice([2, 3, 5, 8, 13, 21, 40])
        names = rng.choice([NAMES, [b'a', b'A', b'b', b'B'], [b'k%d' % i for i in range(6)] + [b'K1', b'K3'], [bytes([rng.randrange(1, 256)]) for _ in range(6)] + [b'\xe9', b'\xc9', b'Z', b'z', b'[', b'@']])
        ops = ['putstr %s %s' % (hexs(rng.choice(names)), hexs(b'%d' % i)) for i in range(n)]
        ops += ['sort', 'getmulti N 0', 'sort', 'putstr %s 7a' % hexs(rng.choice(names)), 'sort', 'walk N %d - 0' % (n + 3)]
        hists.append((fl, ops))
        # a look-up, a sort (which moves contents between the nodes), then look-ups of every name with nothing linked in or out in between
        ops2 = ops[:n]
        for _r in range(3):
            ops2 += ['getstr %s 0' % hexs(rng.choice(names)), 'sort']
            for nm in rng.sample(names, min(len(names), 4)):
                ops2 += [rng.choice(['getstr %s 0', 'getmulti %s 0', 'get %s 1']) % hexs(nm)]
            ops2 += ['getmulti %s 1' % hexs(rng.choice(names)), 'putstr %s 7a7a' % hexs(rng.choice(names))]
        hists.append((fl, ops2))
    return hists


def run(ctx, replay=None):
    props = ['Properties_C08'] if os.path.exists(os.path.join(COQ, 'Properties_C08.v')) else []
    exe = prepare(ctx, props, 'h_listtbl', CORE_SRCS, ['h_listtbl.c'], cov=True)
    if exe is None:
        ctx.finish('build failed')
    rng = ctx.rng
    quick = ctx.tier == 'quick'
    if replay:
        d = json.load(open(replay))
        ops = d.get('replay', {}).get('ops')
        if not ops:
            print(json.dumps(d, indent=1)[:3000])
            print('VIOLATION property=%s replay=%s no-failing-input-found' % (ctx.pid, replay))
            sys.exit(1)
        fl = int(ops[0].split()[1]) if ops[0].startswith('new') else 0
        body = [o for o in ops if not o.startswith('new')]
        run_histories(ctx, exe, [(fl, body)], 'replay')
        if ctx.violations or ctx.broken or ctx.known_hits:
            for _, _, rp in ctx.violations:
                print('VIOLATION property=%s replay=%s' % (ctx.pid, rp))
            for k, dd in ctx.broken:
                print('BROKEN', k, dd)
            sys.exit(1 if (ctx.violations or ctx.broken) else 0)
        print('replay: implementation agrees with model and specification on this history')
        sys.exit(0)
    hists = []
    #          put str int get gstr gint multi rem walk size sort clr save reload load
    mixes = {
        'map':  [14, 16, 3, 10, 5, 3, 10, 10, 12, 4, 3, 1, 2, 2, 1],
        'walk': [8, 14, 1, 3, 1, 1, 6, 6, 45, 3, 3, 1, 1, 1, 0],
        'text': [0, 30, 4, 4, 3, 2, 6, 6, 8, 3, 4, 2, 12, 12, 6],
    }
    per = 6 if quick else 40
    for fl in range(16):
        for i in range(per):
            mixname = rng.choice(list(mixes))
            names = rng.choice([NAMES, NAMES[:5], [b'a', b'A'], [b'k%d' % j for j in range(12)] + [b'K1', b'K2']])
            safe = mixname == 'text' and rng.random() < 0.7
            if safe:
                names = [n for n in names if n]
            hists.append((fl, gen_history(rng, 120 if quick else 250, names, mixes[mixname], safe)))
    hists += directed(rng, quick)
    hists += sort_histories(rng, quick)
    hists += prefix_twin_histories()
    # large tables, all option sets over the run
    for i in range(2 if quick else 16):
        fl = rng.randrange(16)
        names = [b'n%03d' % j for j in range(300)] + [b'N001', b'N002']
        hists.append((fl, gen_history(rng, 1500 if quick else 4000, names, [30, 30, 2, 8, 2, 1, 4, 6, 3, 2, 0.3, 0.05, 0.3, 0.2, 0.2], False)))
    nb = run_histories(ctx, exe, hists, 'random')
    ex = exhaustive(3 if quick else 4)
    nb += run_histories(ctx, exe, ex, 'exhaustive')
    ctx.cov['exhaustive'] = False
    ctx.cov['exhaustive_note'] = ('every table built by <= %d puts over the names a/A/b, for each of the 16 option sets, followed by every probe '
                                  '(get/getmulti/remove/put per name, sort, save+clear+load, walks with every removal pattern): %d histories' % (3 if quick else 4, len(ex)))
    ctx.cov['correspondence_mismatches'] = nb
    ctx.cov['traces_validated_against_impl'] = len(hists) + len(ex)
    g = ctx.gcov('h_listtbl', 'containers/qlisttbl.c', FUNCS)
    ctx.cov['gcov_qlisttbl'] = g
    ctx.assumptions += ['C locale (the harness never calls setlocale): strcasecmp folds ASCII letters only',
                        'caller buffers are exact-size heap blocks scribbled and freed after each call; walks use newmem true and false alternately',
                        'getint / save(encode=false) are not executed on values without a NUL byte (the C code would read past the value); model and spec answer "bad" there',
                        'files are written under $TMPDIR in a private directory; the "# path time" header line of save() is skipped in the comparison']
    ctx.finish('random operation histories for each of the 16 option sets (mixes map/walk/text) over key universes with case variants and the empty name, '
               'directed histories (duplicates at head/middle/tail, removal of first/last/only/every entry during filtered and unfiltered walks, save+load of all byte values, '
               'NULL/empty arguments, sorts with many duplicates), large tables, and a bounded-exhaustive sweep; every op: impl vs extracted spec '
               '(observation + complete entry sequence + chain links both ways) and impl vs extracted model (incl. stored hashes and saved file bytes); '
               'distinct_nontrivial = distinct (options, chain dump) pairs observed after at least one op')
