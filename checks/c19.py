# C19 — string utilities compute exactly their documented function with bounded writes.
# Each case is one op line that goes through the C harness (real qstring.c, guard-page buffers) and through the extracted
# Gallina model (correspondence), plus -- for in-contract cases -- one "spec ..." line that runs the extracted reference
# definition of coq/Str/StrSpec.v (property monitor).
import itertools
from vlib import *

ALPH = [0x20, 0x09, 0x0d, 0x0a, 0x61, 0x41, 0x7a, 0x2c, 0x22, 0x80, 0xff]     # blank kinds, both cases, delimiter, quote, >= 0x80
CASEALPH = [0x40, 0x41, 0x5a, 0x5b, 0x60, 0x61, 0x7a, 0x7b, 0x80, 0xc1, 0xe1, 0xff, 0x20]
FILL = 0xAA
BADOUT = ('CRASH', 'TIMEOUT', 'MISSING', 'BADRET', 'LAYOUTDIFF', 'FUEL')


def strings(alph, maxlen):
    for n in range(maxlen + 1):
        for p in itertools.product(alph, repeat=n):
            yield bytes(p)


def cbody(b):
    i = b.find(0)
    return None if i < 0 else b[:i]


def rand_str(rng, alph, ln):
    return bytes(rng.choice(alph) if rng.random() < .85 else rng.randrange(1, 256) for _ in range(ln))


class Cases:
    """op lines + optional spec line + whether the case is inside the documented contract"""
    def __init__(self):
        self.ops, self.spec, self.incontract = [], [], []

    def add(self, op, spec=None, incontract=True):
        self.ops.append(op); self.spec.append(spec); self.incontract.append(incontract)


def gen(ctx):
    q = ctx.tier == 'quick'
    rng = ctx.rng
    fam = {}
    L = 4 if q else 5
    # ---- in-place one-argument routines
    c = Cases()
    base = list(strings(ALPH, L))
    longs = [rand_str(rng, ALPH, rng.choice([6, 7, 8, 15, 16, 17, 63, 64, 65, 255, 256, 1000, rng.randrange(6, 3000)])) for _ in range(60 if q else 400)]
    longs += [b' ' * 50, b'\t\r\n ' * 20 + b'x' + b' \n' * 30, b' ' * 40 + b'a b' + b' ' * 40]
    # every length around the sizes a fixed scratch buffer would have, blanks at both ends, mixed case inside
    BLENS = list(range(6, 140)) + [254, 255, 256, 257, 258, 511, 512, 513, 1023, 1024, 1025, 4095, 4096, 4097]
    for n in BLENS:
        longs.append(b' \t'[n % 2:][:1] + bytes((0x41 if j % 5 == 0 else 0x61) + (j * 7 + n) % 26 for j in range(n - 2)) + b'\n')
    # every byte value at both edges, alone, next to a blank and in the middle: only blank, tab, CR, LF may be stripped
    # (not VT, FF, NBSP, 0x85 ... whatever a locale calls space)
    edges = []
    for b in range(1, 256):
        x = bytes([b])
        edges += [x, x + b'a', b'a' + x, x + b'a' + x, b' ' + x + b'a' + x + b'\t', x + b' a ' + x, b'a' + x + b'b', x + x]
    for s in base + longs + edges:
        for op in ('trim', 'trimh', 'trimt', 'rev'):
            c.add('%s %s' % (op, hexs(s)), 'spec %s %s' % (op, hexs(s)))
    cs = [bytes([x]) for x in range(1, 256)] + list(strings(CASEALPH, 2 if q else 3)) + base[:2000] + longs[:40] + longs[-len(BLENS):]
    cs += [bytes(rng.randrange(1, 256) for _ in range(rng.randrange(2, 300))) for _ in range(100)]
    for s in cs:
        for op in ('upper', 'lower'):
            c.add('%s %s' % (op, hexs(s)), 'spec %s %s' % (op, hexs(s)))
    fam['inplace'] = c
    # ---- unchar
    c = Cases()
    ua = [0x22, 0x61, 0x7a, 0x20, 0xff, 0x80]
    for s in list(strings(ua, 4 if q else 5)) + [rand_str(rng, ua, rng.randrange(5, 200)) for _ in range(100)] + \
            [b'"' + bytes(0x61 + (j * 3 + n) % 26 for j in range(n - 2)) + b'"' for n in BLENS]:
        for hd, tl in ((0x22, 0x22), (0x61, 0x7a), (0xff, 0x80), (0x22, 0x20), (0, 0x22)):
            c.add('unchar %s %d %d' % (hexs(s), hd, tl), 'spec unchar %s %d %d' % (hexs(s), hd, tl))
    fam['unchar'] = c
    # ---- replace
    c = Cases()
    ra = [0x61, 0x62] if q else [0x61, 0x62, 0x2c]
    srcs = list(strings(ra, 5 if q else 5))
    toks = [t for t in strings(ra, 3) if t]
    words = list(strings([0x61, 0x78] if q else [0x61, 0x62, 0x78], 3 if q else 3))
    if not q:
        toks = [t for t in strings([0x61, 0x62], 3) if t] + [b',', b'a,', b',,']
    def repl_case(mode, s, t, w, cap, ic=True):
        sp = None
        if ic:
            sp = 'spec %s %s %s %s' % ('replt' if mode[0:1] == b't' else 'repls', hexs(s), hexs(t), hexs(w))
        c.add('repl %s %s %s %s %d' % (hexs(mode), hexs(s), hexs(t), hexs(w), cap), sp, ic)
    def outlen(mode, s, t, w):     # python-side length of the result, only to choose buffer sizes
        if mode[0:1] == b't':
            return sum(len(w) if ch in t else 1 for ch in s)
        return len(s.replace(t, w))
    for s in srcs:
        for t in toks:
            for w in words:
                for mode in (b'tn', b'sn'):
                    repl_case(mode, s, t, w, len(s) + 1)
                for mode in (b'tr', b'sr'):
                    repl_case(mode, s, t, w, max(len(s), outlen(mode, s, t, w)) + 1 + (len(s) + len(w)) % 3)
    # random long inputs, overlapping patterns
    for _ in range(150 if q else 1500):
        al = rng.choice([b'ab', b'a', b'abc,', b'ab \xff'])
        s = bytes(rng.choice(al) for _ in range(rng.choice([6, 10, 31, 64, 200, rng.randrange(6, 1500)])))
        t = bytes(rng.choice(al) for _ in range(rng.randrange(1, 5)))
        w = bytes(rng.choice(al + b'x') for _ in range(rng.choice([0, 1, 2, 3, 5, 9])))
        for mode in (b'tn', b'sn'):
            repl_case(mode, s, t, w, len(s) + 1)
        for mode in (b'tr', b'sr'):
            repl_case(mode, s, t, w, max(len(s), outlen(mode, s, t, w)) + 1 + rng.randrange(3))
    # token mode with an empty token list is inside the contract (nothing is listed)
    for s in srcs[:20]:
        repl_case(b'tn', s, b'', b'x', len(s) + 1)
    # outside the contract (correspondence only): bad modes, in-place result longer than the caller's buffer, empty search string
    for mode in (b'', b't', b'tnx', b'xn', b'tx', b'sx', b'xx'):
        repl_case(mode, b'abab', b'ab', b'xyz', 5, ic=False)
    for s, t, w in ((b'aaa', b'a', b'bb'), (b'ab', b'b', b'xyz'), (b'a', b'a', b'bb')):
        for mode in (b'tr', b'sr'):
            for cap in range(len(s) + 1, outlen(mode, s, t, w) + 1):
                repl_case(mode, s, t, w, cap, ic=False)
    repl_case(b'sn', b'abc', b'', b'x', 4, ic=False)     # strlen(src) / strlen("")  -> SIGFPE
    repl_case(b'sn', b'', b'', b'x', 1, ic=False)
    repl_case(b'sn', b'', b'', b'', 1, ic=False)         # no iteration at all: returns ""
    repl_case(b'sn', b'ab', b'', b'', 3, ic=False)       # never advances
    fam['replace'] = c
    # ---- bounded copies
    c = Cases()
    ca = [0x61, 0x20, 0x80, 0xff]
    cstrs = list(strings(ca, 4 if q else 5)) + [rand_str(rng, ca, rng.randrange(5, 600)) for _ in range(40 if q else 300)]
    for s in cstrs:
        n = len(s)
        sizes = list(range(0, n + 3)) if n <= 8 else sorted(set([0, 1, 2, n - 1, n, n + 1, n + 2, rng.randrange(1, n + 3)]))
        for size in sizes:
            c.add('cpy %d %s' % (size, hexs(s)), 'spec cpy %d %s' % (size, hexs(s)) if size >= 1 else None)
            nbs = list(range(0, n + 2)) if n <= 8 else sorted(set([0, 1, n - 1, n, n + 1, rng.randrange(0, n + 1)]))
            if n > 5 and not q:
                nbs = nbs[:3] + nbs[-2:]
            for nb in nbs:
                c.add('ncpy %d %s %d' % (size, hexs(s), nb), 'spec ncpy %d %s %d' % (size, hexs(s), nb) if size >= 1 else None)
            # nbytes larger than the source buffer: reads past it unless size cuts it down (outside the contract when it does not)
            c.add('ncpy %d %s %d' % (size, hexs(s), n + 2), None, incontract=False)
            c.add('ncpy %d %s %d' % (size, hexs(s), n + 40), None, incontract=False)
    # src and dst inside one buffer at every distance -6..6 (the documented in-place shift)
    for s in list(strings([0x61, 0x62, 0x80], 3)) + [b'#comment', b'http://www.example.org/index', rand_str(rng, ca, 40)]:
        n = len(s)
        for delta in range(-6, 7):
            for size in sorted(set([1, 2, max(1, n - 1), max(1, n), n + 1, n + 2, n + 8])):
                c.add('cpyov %d %d %s' % (delta, size, hexs(s)), 'spec cpyov %d %s' % (size, hexs(s)))
    fam['copy'] = c
    # ---- dup_between, memdup
    c = Cases()
    ba = [0x61, 0x62, 0x5b, 0x5d]
    ends = [b'', b'a', b'b', b'[', b']', b'ab', b'[[', b']a', b'aa']
    for s in list(strings(ba, 4 if q else 5)) + [rand_str(rng, ba, rng.randrange(5, 300)) for _ in range(60)]:
        for st in ends:
            for en in (ends if len(s) <= 3 else ends[:6]):
                c.add('between %s %s %s' % (hexs(s), hexs(st), hexs(en)))
    for d in list(strings([0, 0x61, 0xff], 3)) + [bytes(rng.randrange(256) for _ in range(rng.randrange(4, 500))) for _ in range(40)]:
        for size in sorted(set(list(range(0, min(len(d), 4) + 1)) + [len(d)])):
            c.add('memdup %s %d' % (hexs(d), size))
        c.add('memdup %s %d' % (hexs(d), len(d) + 1), None, incontract=False)
    fam['dup'] = c
    # ---- qstrgets
    c = Cases()
    ga = [0x61, 0x0d, 0x0a, 0x20]
    for s in list(strings(ga, 4 if q else 5)) + [rand_str(rng, ga + [0x62, 0xff], rng.randrange(5, 400)) for _ in range(40 if q else 300)]:
        n = len(s)
        offs = range(0, n + 1) if n <= 5 else sorted(set([0, 1, n - 1, n, rng.randrange(0, n)]))
        for off in offs:
            rest = s[off:]
            sizes = range(1, len(rest) + 3) if n <= 5 else sorted(set([1, 2, 3, len(rest), len(rest) + 1, len(rest) + 2, rng.randrange(1, len(rest) + 3)]))
            for size in sizes:
                c.add('gets %d %s %d' % (size, hexs(s), off), 'spec gets %d %s' % (size, hexs(rest)))
    # size 0 is outside the contract: size - 1 wraps, the terminator is written into a zero-byte buffer
    for s in (b'a', b'\n', b'ab\n', b''):
        c.add('gets 0 %s 0' % hexs(s), None, incontract=False)
    fam['gets'] = c
    # ---- qstrtok, qstrtokenizer
    c = Cases()
    ta = [0x61, 0x2c, 0x3b, 0x20, 0xff]
    dels = [b',', b',;', b'', b';,', b'\xff ']
    for s in list(strings(ta, 4 if q else 5)) + [rand_str(rng, ta, rng.randrange(5, 300)) for _ in range(40 if q else 300)]:
        n = len(s)
        for d in dels:
            c.add('tokz %s %s' % (hexs(s), hexs(d)), 'spec tokz %s %s' % (hexs(s), hexs(d)))
            for off in (range(0, n + 1) if n <= 5 else sorted(set([0, 1, n, rng.randrange(0, n)]))):
                c.add('tok %s %s %d' % (hexs(s), hexs(d), off), 'spec tok %s %s' % (hexs(d), hexs(s[off:])))
        c.add('tok %s %s %d' % (hexs(s), hexs(b','), n + 1), None, incontract=False)     # offset beyond the terminator
    # every source length around the sizes a fixed scratch buffer would have (the last field ends with the string / with a delimiter)
    for n in list(range(6, 140)) + [254, 255, 256, 257, 258, 511, 512, 513, 1023, 1024, 1025, 4095, 4096, 4097]:
        for tail in (b'z', b','):
            s = bytes((0x2c if j % 7 == 3 else 0x61 + (j * 3 + n) % 26) for j in range(n - 1)) + tail
            c.add('tokz %s %s' % (hexs(s), hexs(b',')), 'spec tokz %s %s' % (hexs(s), hexs(b',')))
            c.add('tok %s %s %d' % (hexs(s), hexs(b',;'), n - 2), 'spec tok %s %s' % (hexs(b',;'), hexs(s[n - 2:])))
    # a tokenisation abandoned after its first field must not influence a later one with other delimiters
    # (the harness runs all operations in one process, so hidden static state would carry over)
    for d1, d2 in ((b'=', b','), (b';', b','), (b',;', b' '), (b'\xff', b','), (b'a', b';')):
        for s2 in (b'x=1,y=2,,z=3', b'a;b,c;d', b'k = v ; w', b'\xffa,b\xff', b'aXa;bXb'):
            c.add('tok %s %s 0' % (hexs(b'k' + d1[:1] + b'v' + d1[:1]), hexs(d1)), 'spec tok %s %s' % (hexs(d1), hexs(b'k' + d1[:1] + b'v' + d1[:1])))
            c.add('tokz %s %s' % (hexs(s2), hexs(d2)), 'spec tokz %s %s' % (hexs(s2), hexs(d2)))
            for off in range(0, len(s2) + 1):
                c.add('tok %s %s 0' % (hexs(b'k' + d1[:1] + b'v'), hexs(d1)), 'spec tok %s %s' % (hexs(d1), hexs(b'k' + d1[:1] + b'v')))
                c.add('tok %s %s %d' % (hexs(s2), hexs(d2), off), 'spec tok %s %s' % (hexs(d2), hexs(s2[off:])))
    fam['tok'] = c
    # ---- qstr_comma_number (extra)
    c = Cases()
    nums = set(range(-1100, 1101)) | {2**31 - 1, -2**31, -2**31 + 1, 2**31 - 2}
    for k in range(1, 10):
        for d in (-1, 0, 1):
            nums |= {10 ** k + d, -(10 ** k + d)}
    nums |= {rng.randrange(-2**31, 2**31) for _ in range(300 if q else 3000)}
    for n in sorted(nums):
        c.add('comma %d' % n, 'spec comma %d' % n)
    fam['comma'] = c
    return fam


def monitor(op, impl, spec):
    """The property on the implementation's observation. Returns None or (signature, title)."""
    w = op.split()
    k = w[0]
    bad = lambda obs, title: ({'op': k, 'observed': obs}, title)
    if impl in BADOUT:
        return bad('crash' if impl in ('CRASH', 'LAYOUTDIFF') else impl.lower(), '%s: %s on an in-contract call (out-of-bounds access, hang or wrong return)' % (k, impl))
    if k in ('trim', 'trimh', 'trimt', 'rev', 'upper', 'lower'):
        s = unhex(w[1]); b = unhex(impl)
        if len(b) != len(s) + 1 or cbody(b) is None or hexs(cbody(b)) != spec:
            return bad('wrong-result', 'q%s result differs from its reference definition' % k)
    elif k == 'unchar':
        s = unhex(w[1]); tag, hb = impl.split(); b = unhex(hb)
        if spec == 'NULL':
            if tag != 'NULL' or b != s + b'\0':
                return bad('wrong-result', 'qstrunchar must return NULL and leave the string alone')
        elif tag != 'OK' or hexs(cbody(b)) != spec:
            return bad('wrong-result', 'qstrunchar result differs from its reference definition')
    elif k == 'repl':
        mode, s, cap = unhex(w[1]), unhex(w[2]), int(w[5])
        m = re.match(r'R (\S+) B (\S+) M (\d+)$', impl)
        r, b = m.group(1), unhex(m.group(2))
        orig = s + b'\0' + bytes([FILL]) * (max(cap, len(s) + 1) - len(s) - 1)
        if r != spec:
            return ({'op': 'repl', 'mode': mode.decode(), 'observed': 'wrong-result'}, 'qstrreplace(%s) result differs from its reference definition' % mode.decode())
        out = unhex(r)
        want = orig if mode[1:2] == b'n' else out + b'\0' + orig[len(out) + 1:]
        if b != want:
            return ({'op': 'repl', 'mode': mode.decode(), 'observed': 'source-buffer'}, 'qstrreplace(%s): caller\'s buffer is not what the contract says' % mode.decode())
    elif k in ('cpy', 'ncpy'):
        size, s = int(w[1]), unhex(w[2]); b = unhex(impl)
        if size == 0:
            return None if b == b'' else bad('wrong-result', 'write with size 0')
        nb = min(len(s) if k == 'cpy' else int(w[3]), size - 1)
        body = cbody(b)
        if len(b) != size or body is None:
            return bad('unterminated', 'q%s did not NUL-terminate inside size' % k)
        if hexs(body + b'\0') != spec:
            return bad('wrong-result', 'q%s result differs from firstn (size-1) src ++ [0]' % k)
        if any(x != FILL for x in b[nb + 1:]):
            return bad('write-beyond', 'q%s wrote more than min(nbytes, size-1) + 1 bytes' % k)
    elif k == 'between':
        s, st, en = unhex(w[1]), unhex(w[2]), unhex(w[3])
        i = s.find(st); exp = 'NULL'
        if i >= 0:
            j = s.find(en, i + len(st))
            if j >= 0:
                exp = hexs(s[i + len(st):j])
        if impl != exp:
            return bad('wrong-result', 'qstrdup_between is not the text between the first start and the first end after it')
    elif k == 'memdup':
        d, size = unhex(w[1]), int(w[2])
        if impl != ('NULL' if size == 0 else hexs(d[:size])):
            return bad('wrong-result', 'qmemdup is not a copy of the first size bytes')
    elif k == 'gets':
        size, s, off = int(w[1]), unhex(w[2]), int(w[3])
        if spec == 'NULL':
            return None if impl == 'NULL' else bad('wrong-result', 'qstrgets at end of text must return NULL')
        if impl == 'NULL':
            return bad('wrong-result', 'qstrgets returned NULL before the end of the text')
        hb, noff = impl.split(); b = unhex(hb); sl, sn = spec.split()
        body = cbody(b)
        if len(b) != size or body is None:
            return bad('unterminated', 'qstrgets did not NUL-terminate inside size')
        if hexs(body) != sl or int(noff) != off + int(sn):
            return bad('wrong-result', 'qstrgets line/offset differ from the reference definition')
        if any(x != FILL for x in b[len(body) + 1:]):
            return bad('write-beyond', 'qstrgets wrote beyond the line and its terminator')
    elif k == 'tok':
        s, off = unhex(w[1]), int(w[3])
        f = impl.split()
        if spec == 'NULL':
            if f[0] != 'NULL' or int(f[1]) != off or f[2] != '0' or unhex(f[3]) != s + b'\0':
                return bad('wrong-result', 'qstrtok at the end of the text must return NULL and change nothing')
            return None
        st, sstop, sn = spec.split()
        if f[0] != 'T':
            return bad('wrong-result', 'qstrtok returned NULL although a field is left')
        tok = unhex(f[2])
        want = bytearray(s + b'\0')
        if sstop != '0':
            want[off + len(tok)] = 0
        if int(f[1]) != off or f[2] != st or int(f[3]) != off + int(sn) or f[4] != sstop or unhex(f[5]) != bytes(want):
            return bad('wrong-result', 'qstrtok field/stop/offset/buffer differ from the reference definition')
    elif k == 'comma':
        n = int(w[1])
        if impl != spec or unhex(impl) != format(n, ',').encode():
            return ({'op': 'comma', 'observed': 'wrong-result', 'input': 'INT_MIN' if n == -2**31 else 'other'},
                    'qstr_comma_number(%d) is not the comma-grouped decimal number' % n)
    elif k == 'cpyov':
        if impl != spec:
            return bad('wrong-result-on-overlapping-buffers', 'qstrcpy with src and dst inside one buffer (distance %s): the string at dst is not firstn (size-1) src' % w[1])
    elif k == 'tokz':
        if impl != spec:
            return bad('wrong-result', 'qstrtokenizer fields differ from the reference definition')
    return None


def run(ctx, replay=None):
    exe = prepare(ctx, ['Properties_C19'], 'h_str', CORE_SRCS, ['h_str.c'], wrap=('malloc', 'free'), cov=True)
    if exe is None:
        ctx.finish('build failed')
    if replay:
        il, ml, ops = replay_ops(ctx, 'str', exe, replay)
        d = json.load(open(replay)).get('replay', {})
        bad = [o for i, o in enumerate(ops) if i >= len(il) or i >= len(ml) or il[i] != ml[i]]
        if d.get('spec') and il:
            _, so, _ = ctx.driver(['str'], inp=(d['spec'] + '\n').encode())
            sp = so.decode('latin1').splitlines()
            print('spec  : %s' % (sp[0] if sp else 'MISSING'))
            if monitor(ops[0], il[0], sp[0] if sp else 'MISSING') is not None:
                bad.append(ops[0])
        if bad or not ops:
            print('VIOLATION property=C19 replay=%s' % replay)
            sys.exit(1)
        print('replay: implementation now agrees with model and property on these ops')
        sys.exit(0)
    fam = gen(ctx)
    corr_bad = 0
    for name, c in fam.items():
        il, ml, err = both(ctx, 'str', exe, c.ops)
        # an op that kills the harness process outright is reported through err; the hang case (FUEL vs TIMEOUT) is expected to pair up
        if err:
            ctx.broken.append(('correspondence:%s-run' % name, err))
        specops = [s for s in c.spec if s is not None]
        sl = []
        if specops:
            _, so, _ = ctx.driver(['str'], inp=('\n'.join(specops) + '\n').encode())
            sl = so.decode('latin1').splitlines()
        si = 0
        for i, op in enumerate(c.ops):
            a = il[i] if i < len(il) else 'MISSING'
            m = ml[i] if i < len(ml) else 'MISSING'
            k = op.split(' ', 1)[0]
            ctx.cov['evaluations'] += 1
            ctx.count(k if c.incontract[i] else k + '(out-of-contract)')
            sp = None
            if c.spec[i] is not None:
                sp = sl[si] if si < len(sl) else 'MISSING'
                si += 1
            if c.incontract[i]:
                ctx.distinct.add(op)
                v = monitor(op, a, sp) if (sp is not None or k in ('between', 'memdup')) else None
                if c.spec[i] is None and k in ('cpy', 'ncpy') and a != '-':
                    v = ({'op': k, 'observed': 'write-size0'}, 'write with size 0')
                if v is not None:
                    ctx.report('impl-vs-spec', v[0], v[1], {'op': op, 'spec': c.spec[i], 'expected': sp, 'actual': a})
                ctx.count('outcome:' + ('null' if 'NULL' in a.split()[:2] else 'crash' if a in BADOUT else 'value'))
            else:
                ctx.count('outcome(out-of-contract):' + (a if a in BADOUT else 'NULL' if a.startswith(('NULL', 'R NULL')) else 'value'))
            if a != m and not (a == 'TIMEOUT' and m == 'FUEL'):
                corr_bad += 1
                if corr_bad <= 8:
                    ctx.broken.append(('correspondence:' + k, '%s: impl=%s model=%s' % (op, a[:300], m[:300])))
        for j in (len(c.ops) // 3, 2 * len(c.ops) // 3):
            if j < len(il):
                ctx.sample({'op': c.ops[j], 'impl': il[j], 'model': ml[j] if j < len(ml) else ''}, limit=14)
    try:
        ctx.cov['gcov_qstring'] = ctx.gcov('h_str', 'utilities/qstring.c',
            ['qstrtrim', 'qstrtrim_head', 'qstrtrim_tail', 'qstrunchar', 'qstrreplace', 'qstrcpy', 'qstrncpy', 'qstrdup_between', 'qmemdup',
             'qstrgets', 'qstrrev', 'qstrupper', 'qstrlower', 'qstrtok', 'qstrtokenizer', 'qstr_comma_number'])
    except Exception as e:
        ctx.notes.append('gcov failed: %s' % e)
    ctx.cov['correspondence_mismatches'] = corr_bad
    ctx.cov['exhaustive_sweeps'] = ('all strings of length <= %d over %s for trim/trim_head/trim_tail/rev; all single bytes + case alphabet for upper/lower; '
                             'all (src<=5, tok 1..3, word<=3) over a 2-3 letter alphabet x 4 modes for replace; all sizes 0..n+2 x nbytes 0..n+1 for the copies; '
                             'all offsets x sizes 1..rest+2 for qstrgets; all offsets x 5 delimiter sets for qstrtok' % (4 if ctx.tier == 'quick' else 5, [hex(x) for x in ALPH]))
    ctx.assumptions += ['every string argument sits in a buffer of exactly strlen+1 bytes ending at an inaccessible page; destination buffers have exactly the stated size',
                        'in-place routines are run in two layouts (guard page after / before the buffer) and must agree',
                        'malloc/free wrapped in the harness build only: blocks requested during an op are exact-size guard-page blocks, the requested size is compared with the model\'s maxstrlen+1',
                        'char is signed (x86-64); lengths below 2^31 (int maxstrlen/len/offset in the C code)',
                        'out-of-contract calls (bad mode, empty search string, too small in-place buffer, nbytes beyond the source, size 0, offset beyond the terminator) are compared with the model only']
    ctx.finish('each op: implementation == extracted model (whole buffers, return values, offsets, malloc size); in-contract ops: implementation == extracted reference definition '
               '(StrSpec.v) and untouched bytes outside the contract; distinct_nontrivial = distinct in-contract op lines')
