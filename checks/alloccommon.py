# Shared engine of the C15 / C11 / C12 checks: history generators for every container, plain reference models of the
# containers' contents (independent of the implementation and of the Coq ledger model), parser of harness/h_api.c output,
# the property monitors, and the ledger correspondence (implementation's allocation/copy events vs the extracted scripts).
import re, struct
from vlib import *

AREA = 'alloc'
WRAP = ('malloc', 'calloc', 'realloc', 'free', 'strdup', 'memcpy', 'memmove', 'pthread_mutex_trylock', 'pthread_mutex_unlock')
ANCHORS = {
    'containers/qtreetbl.c': ['qtreetbl', 'qtreetbl_putobj', 'qtreetbl_getobj', 'qtreetbl_removeobj', 'qtreetbl_getnext', 'qtreetbl_find_min', 'qtreetbl_find_max',
                              'qtreetbl_find_nearest', 'qtreetbl_clear', 'qtreetbl_free', 'new_obj', 'put_obj', 'remove_obj', 'remove_min', 'free_objs'],
    'containers/qhashtbl.c': ['qhashtbl', 'qhashtbl_put', 'qhashtbl_get', 'qhashtbl_remove', 'qhashtbl_getnext', 'qhashtbl_clear', 'qhashtbl_free'],
    'containers/qlisttbl.c': ['qlisttbl', 'qlisttbl_put', 'qlisttbl_get', 'qlisttbl_getmulti', 'qlisttbl_freemulti', 'qlisttbl_remove', 'qlisttbl_removeobj',
                              'qlisttbl_getnext', 'qlisttbl_clear', 'qlisttbl_free', 'newobj'],
    'containers/qlist.c': ['qlist', 'qlist_addat', 'qlist_getnext', 'qlist_toarray', 'qlist_tostring', 'qlist_clear', 'qlist_free', 'get_at', 'remove_obj'],
    'containers/qvector.c': ['qvector', 'qvector_addat', 'qvector_popat', 'qvector_resize', 'qvector_toarray', 'qvector_reverse', 'qvector_getnext', 'qvector_free', 'get_at'],
    'containers/qqueue.c': ['qqueue', 'qqueue_free', 'qqueue_popint', 'qqueue_getint'],
    'containers/qstack.c': ['qstack', 'qstack_free', 'qstack_popint', 'qstack_getint'],
    'containers/qgrow.c': ['qgrow', 'qgrow_free'],
    'containers/qhasharr.c': ['qhasharr', 'qhasharr_getnext', 'get_data', 'qhasharr_free'],
}


def murmur3_32(data, seed=0):
    c1, c2 = 0xcc9e2d51, 0x1b873593
    h = seed
    n = len(data)
    for i in range(0, n - n % 4, 4):
        k = struct.unpack_from('<I', data, i)[0]
        k = (k * c1) & 0xffffffff
        k = ((k << 15) | (k >> 17)) & 0xffffffff
        k = (k * c2) & 0xffffffff
        h ^= k
        h = ((h << 13) | (h >> 19)) & 0xffffffff
        h = (h * 5 + 0xe6546b64) & 0xffffffff
    t = data[n - n % 4:]
    k = 0
    if len(t) >= 3:
        k ^= t[2] << 16
    if len(t) >= 2:
        k ^= t[1] << 8
    if len(t) >= 1:
        k ^= t[0]
        k = (k * c1) & 0xffffffff
        k = ((k << 15) | (k >> 17)) & 0xffffffff
        k = (k * c2) & 0xffffffff
        h ^= k
    h ^= n
    h ^= h >> 16
    h = (h * 0x85ebca6b) & 0xffffffff
    h ^= h >> 13
    h = (h * 0xc2b2ae35) & 0xffffffff
    h ^= h >> 16
    return h


# ------------------------------------------------------------------ values used by the generators
def val(i, n=None):
    """value number i: lengths and contents aimed at C12 (embedded / trailing NULs, zero-filled, 0xff, long)"""
    pats = [b'\x01\x02', b'v\x00w', b'tail\x00', b'\x00', b'\x00\x00\x00\x00', b'\xff\xfe', b'x' * 33, b'abc', b'\x00mid\x00\x00', b'z' * 7 + b'\x00',
            bytes(range(1, 18)), b'\x5a\x5a\x5a']
    v = pats[i % len(pats)]
    if n is not None:
        v = (v * (n // len(v) + 1))[:n]
    return v


def ftext(n):
    """the text harness/h_api.c formats for `putstrf <key> <n>` / `addstrf <n>`: even n: "%s" of a..z repeated, odd n: "%0*d" of 7"""
    return bytes(0x61 + i % 26 for i in range(n)) if n % 2 == 0 else b'0' * (n - 1) + b'7'


def tkey(i):
    return bytes([0x6b, 0x10 + 2 * i])            # tree keys k.. with gaps (odd codes are "between" keys)


def skey(i):
    return b'k%02d' % i                            # C-string keys


# ------------------------------------------------------------------ reference models (contents only)
class Ref:
    """plain model of what a container must contain and return; apply(op, args) -> expected result string (or None = not predicted)"""
    def __init__(self, typ, args):
        self.typ, self.args = typ, args
        self.alive = True
        self.cur = None
        if typ == 'tree':
            self.d = {}
        elif typ in ('hash', 'harr'):
            self.d = {}
            self.range = args[0] if typ == 'hash' and args[0] else 1000
            self.chains = {}                       # hash: slot -> keys, head first
        elif typ == 'ltbl':
            self.l = []                            # [(name, value)]
            o = args[0]
            self.unique, self.ci, self.top, self.fwd = bool(o & 2), bool(o & 4), bool(o & 8), bool(o & 16)
        elif typ in ('list', 'queue', 'stack', 'grow'):
            self.l = []
            self.max = 0
        elif typ == 'vec':
            self.l = []
            self.max, self.objsize, self.opts = args[0], args[1], args[2]
            if self.opts & 2:
                self.policy = 'double'
            elif self.opts & 4:
                self.policy = 'linear'
                self.initnum = self.max if self.max else 1
            else:
                self.policy = 'exact'

    # ---- helpers
    def lmatch(self, a, b):
        return a.lower() == b.lower() if self.ci else a == b

    def lfind(self, name):
        idxs = range(len(self.l)) if self.fwd else range(len(self.l) - 1, -1, -1)
        for i in idxs:
            if self.lmatch(self.l[i][0], name):
                return i
        return None

    def norm_add(self, idx, n):                    # qlist_addat index rule
        if idx < 0:
            idx = n + idx + 1
        return idx if 0 <= idx <= n else None

    def norm_get(self, idx, n):                    # get_obj index rule (qlist / qvector)
        if idx < 0:
            idx = n + idx
        return idx if 0 <= idx < n else None

    def hash_order(self):
        return [k for slot in sorted(self.chains) for k in self.chains[slot]]

    def hash_peek(self):
        o = self.hash_order()
        i = self.cur or 0
        return o[i] if i < len(o) else None

    def tree_peek(self):
        ks = sorted(self.d)
        if getattr(self, 'pending', None) is not None:      # the cursor a nearest-key search handed out: the walk continues WITH that key
            return self.pending if self.pending in self.d else None
        if self.cur is None:
            return ks[0] if ks else None
        later = [k for k in ks if k > self.cur]
        return later[0] if later else None

    def kid(self, k):
        if self.typ == 'ltbl' and self.ci:
            k = k.lower()
        return int.from_bytes(k, 'big')

    def selfargs(self, a):
        """putself <key> <off:len:mode>: the value argument is a slice of the stored value, handed back through the container's own pointer"""
        t = self.typ
        if t in ('tree', 'hash'):
            old = self.d.get(a[0]) or None
        else:
            i = self.lfind(a[0])
            old = None if i is None else self.l[i][1]
        off, ln = a[1][0], a[1][1]
        if old is not None and ln < 0:
            ln = max(len(old) - off, 0)
        if old is None or off + ln > len(old) or ln == 0:
            return None
        return [a[0], old[off:off + ln]]

    def model_op(self, op, a, rec):
        """the model-level op line (ocaml/d_alloc.ml) for this op in the current state; called BEFORE apply()"""
        t = self.typ
        if op == 'free':
            return 'free'
        if op in ('first', 'size', 'setsize') or (op == 'next' and getattr(self, 'ended', False)):
            return 'none'
        if op == 'clear':
            return 'vclear' if t == 'vec' else ('none' if t == 'harr' else 'clear')
        if op == 'putself':
            pa = self.selfargs(a)
            return 'none' if pa is None else self.model_op('put', pa, rec)
        if op == 'removeself':
            present = (a[0] in self.d and (t != 'tree' or self.d[a[0]])) if t in ('tree', 'hash') else self.lfind(a[0]) is not None
            if not present:
                return 'none'
            m = self.model_op('remove', a, rec)
            # list table: the name handed in is the name stored in the object get() finds = the first match in look-up order (own = 0)
            return m + ' 0' if t == 'ltbl' else m
        if op == 'putstrf':
            if t == 'tree':
                return 'tputf %d %d %d' % (self.kid(a[0] + b'\0'), len(a[0]) + 1, a[1])
            if t == 'hash':
                return 'hputf %d %d %d' % (self.kid(a[0]), len(a[0]) + 1, a[1])
            if t == 'ltbl':
                return 'lputf %d %d %d %d %d %d' % (self.unique, self.top, self.fwd, self.kid(a[0]), len(a[0]) + 1, a[1])
            if t == 'harr':
                return 'aputf %d' % a[1]
        if op == 'addstrf':
            return 'saddf %d %d' % (len(self.l), a[0])
        if t == 'tree':
            if op == 'put':
                return 'none' if not a[0] else 'tput %d %d %d' % (self.kid(a[0]), len(a[0]), len(a[1]))
            if op == 'get':
                return 'tget %d' % self.kid(a[0]) if a[0] in self.d else 'none'
            if op == 'remove':
                if a[0] not in self.d:
                    return 'none'
                later = [k for k in sorted(self.d) if k > a[0]]
                return 'tremove %d %s %s' % (self.kid(a[0]), self.kid(later[0]) if later else '-', ','.join(rec.get('ev', [])) or '-')
            if op in ('min', 'max'):
                return 'none' if not self.d else 'tmin %d' % self.kid(min(self.d) if op == 'min' else max(self.d))
            if op == 'next':
                k = self.tree_peek()
                return 'none' if k is None else 'tnext %d' % self.kid(k)
            if op == 'near':
                if not self.d or not a[0]:
                    return 'none'
                ks = sorted(self.d)
                le = [k for k in ks if k <= a[0]]
                return 'tnext %d' % self.kid(le[-1] if le else ks[0])
        if t == 'hash':
            if op == 'put':
                return 'hput %d %d %d' % (self.kid(a[0]), len(a[0]) + 1, len(a[1]))
            if op in ('get', 'remove'):
                return 'h%s %d' % (op, self.kid(a[0])) if a[0] in self.d else 'none'
            if op == 'next':
                k = self.hash_peek()
                return 'none' if k is None else 'hnext %d' % self.kid(k)
        if t == 'ltbl':
            if op == 'put':
                return 'none' if not a[1] else 'lput %d %d %d %d %d %d' % (self.unique, self.top, self.fwd, self.kid(a[0]), len(a[0]) + 1, len(a[1]))
            if op == 'get':
                i = self.lfind(a[0])
                return 'none' if i is None else 'lget %d' % i
            if op == 'getmulti':
                return 'lgetmulti %d %d' % (self.fwd, self.kid(a[0]))
            if op == 'remove':
                return 'lremove %d %d' % (self.fwd, self.kid(a[0]))
            if op == 'next':
                i = 0 if self.cur is None else self.cur + 1
                if i >= len(self.l):
                    return 'none'
                return 'lnext %d' % (i if self.fwd else len(self.l) - 1 - i)
        if t in ('list', 'queue', 'stack', 'grow'):
            n = len(self.l)
            if op in ('addat', 'push', 'add', 'addstr', 'pushstr', 'pushint'):
                if op == 'addat':
                    idx, ds = a[0], len(a[1])
                elif op == 'pushint':
                    idx, ds = (-1 if t == 'queue' else 0), 8
                elif op == 'pushstr':
                    idx, ds = (-1 if t == 'queue' else 0), len(a[0]) + 1
                elif op == 'push':
                    idx, ds = (-1 if t == 'queue' else 0), len(a[0])
                else:
                    idx, ds = -1, len(a[0])
                p = self.norm_add(idx, n)
                if not ds or (self.max and n >= self.max) or p is None:
                    return 'none'
                return 'saddat %d %d %d' % (p, ds, op == 'pushint')
            if op in ('getat', 'get', 'getstr', 'getint', 'popat', 'pop', 'popstr', 'popint', 'removeat'):
                idx = a[0] if op in ('getat', 'popat', 'removeat') else 0
                p = self.norm_get(idx, n)
                if p is None:
                    return 'none'
                if op == 'removeat':
                    return 'sremoveat %d' % p
                if op == 'getint':
                    return 'sgettmp %d' % p
                if op.startswith('pop'):
                    return 'spopat %d %d' % (p, op == 'popint')
                return 'sgetat %d' % p
            if op == 'toarray':
                return 'stoarray %d -' % sum(len(x) for x in self.l)
            if op == 'tostring':
                fl = ''.join('1' if len(x) - (1 if x.endswith(b'\0') else 0) > 0 else '0' for x in self.l)
                return 'stoarray %d %s' % (sum(len(x) for x in self.l) + 1, fl or '-')
            if op == 'next':
                i = 0 if self.cur is None else self.cur + 1
                return 'none' if i >= n else 'sgetat %d' % i
            if op == 'reverse':
                return 'sreverse'
        if t == 'vec':
            n = len(self.l)
            if op == 'addself':                      # addat(i, getat(j, false)): same allocations as addat(i, <bytes of element j>)
                return 'none' if self.norm_get(a[1], n) is None else self.model_op('addat', [a[0], self.l[self.norm_get(a[1], n)]], rec)
            if op in ('addat', 'addlast', 'addfirst'):
                idx = a[0] if op == 'addat' else (n if op == 'addlast' else 0)
                if idx < 0:
                    idx += n
                return 'vaddat %d' % idx if 0 <= idx <= n else 'none'
            if op in ('getat', 'popat', 'removeat', 'setat'):
                p = self.norm_get(a[0], n)
                if p is None:
                    return 'none'
                return {'getat': 'vgetat', 'popat': 'vpopat %d' % p, 'removeat': 'vremoveat %d' % p, 'setat': 'vsetat'}[op]
            if op == 'resize':
                return 'vresize %d' % a[0]
            if op == 'reverse':
                return 'vreverse'
            if op == 'toarray':
                return 'vtoarray'
            if op == 'next':
                i = 0 if self.cur is None else self.cur
                return 'vgetat' if i < n else 'none'
        if t == 'harr':
            if op == 'get':
                return 'aget %d' % len(self.d[a[0]]) if a[0] in self.d else 'none'
            if op == 'next':                         # walk order of the static table is C06's subject: sizes are taken from the requests made
                rq = [int(e.split(':')[1]) for e in rec.get('ev', []) if e[0] in 'ax']
                return 'none' if not rq else 'anext %d %d' % (rq[0] - 1, rq[1] if len(rq) > 1 else 0)
            return 'none'
        return 'none'

    def contents(self):
        """canonical contents, comparable with parse_dump()"""
        t = self.typ
        if t == 'tree':
            return ('tree', len(self.d), sorted(self.d.items()))
        if t == 'hash':
            return ('hash', len(self.d), sorted(self.d.items()))
        if t == 'ltbl':
            return ('ltbl', len(self.l), list(self.l))
        if t in ('list', 'queue', 'stack', 'grow'):
            return (t, len(self.l), sum(len(x) for x in self.l), list(self.l))
        if t == 'vec':
            return ('vec', len(self.l), self.objsize, b''.join(self.l))
        if t == 'harr':
            return ('harr', len(self.d))

    def apply(self, op, a):
        r = self.apply1(op, a)
        if op == 'near':
            self.ended = False                     # a nearest-key search hands out a fresh cursor
        if op == 'next' and r == 'false':
            self.ended = True
        return r

    def apply1(self, op, a):
        """a: list of decoded args (bytes or int). Returns expected result string, or None when unspecified."""
        t = self.typ
        hx = hexs
        if op == 'putself':
            pa = self.selfargs(a)
            return 'noself' if pa is None else self.apply1('put', pa)
        if op == 'removeself':                           # remove(key) with the key pointer being the stored name itself
            present = (a[0] in self.d and (t != 'tree' or self.d[a[0]])) if t in ('tree', 'hash') else self.lfind(a[0]) is not None
            return self.apply1('remove', a) if present else 'noself'
        if op == 'putstrf':                              # = put(name, text, strlen(text) + 1); the tree's putstr also stores the name's NUL
            return self.apply1('put', [a[0] + b'\0' if t == 'tree' else a[0], ftext(a[1]) + b'\0'])
        if op == 'addstrf':                              # = addstr(text) = addlast(text, strlen(text)): an empty text is refused
            return self.apply1('add', [ftext(a[0])])
        if op == 'first':
            self.cur = None
            self.pending = None
            self.ended = False
            return 'ok'
        if op == 'next' and getattr(self, 'ended', False):
            return 'false'                              # after the end every further call reports the end until the cursor is zeroed
        if op == 'free':
            self.alive = False
            return 'freed'
        if op == 'size':
            if t == 'harr':
                return str(len(self.d))
            return str(len(self.d) if t in ('tree', 'hash') else len(self.l))
        if op == 'clear':
            if t in ('tree', 'hash', 'harr'):
                self.d = {}
                self.chains = {}
            else:
                self.l = []
            return 'ok'
        if t == 'tree':
            if op == 'put':
                if not a[0]:
                    return 'false'
                self.d[a[0]] = a[1]
                return 'true'
            if op == 'get':
                v = self.d.get(a[0])
                return 'NULL' if not v else hx(v)       # an empty value has no copy to hand out
            if op == 'remove':
                return 'true' if self.d.pop(a[0], None) is not None else 'false'
            if op in ('min', 'max'):
                if not self.d:
                    return 'NULL'
                return hx(min(self.d) if op == 'min' else max(self.d))
            if op == 'next':
                nxt = self.tree_peek()
                self.pending = None
                if nxt is None:
                    self.cur = None
                    return 'false'
                self.cur = nxt
                return hx(nxt) + '=' + hx(self.d[nxt])
            if op == 'near':
                if not self.d:
                    return 'NULL'
                ks = sorted(self.d)
                le = [k for k in ks if k <= a[0]]
                k = le[-1] if le else ks[0]
                self.cur = k
                self.pending = k
                return hx(k) + '=' + hx(self.d[k])
        if t == 'hash':
            if op == 'put':
                if a[0] not in self.d:
                    self.chains.setdefault(murmur3_32(a[0]) % self.range, []).insert(0, a[0])
                self.d[a[0]] = a[1]
                return 'true'
            if op == 'get':
                return hx(self.d[a[0]]) if a[0] in self.d else 'NULL'
            if op == 'remove':
                if a[0] in self.d:
                    self.chains[murmur3_32(a[0]) % self.range].remove(a[0])
                return 'true' if self.d.pop(a[0], None) is not None else 'false'
            if op == 'next':
                k = self.hash_peek()
                if k is None:
                    return 'false'
                self.cur = (self.cur or 0) + 1
                return hx(k) + '=' + hx(self.d[k])
        if t == 'harr':
            if op == 'put':
                self.d[a[0]] = a[1]
                return 'true'
            if op == 'get':
                return hx(self.d[a[0]]) if a[0] in self.d else 'NULL'
            if op == 'remove':
                return 'true' if self.d.pop(a[0], None) is not None else 'false'
            if op == 'next':
                return None
        if t == 'ltbl':
            if op == 'put':
                if not a[1]:
                    return 'false'
                if self.unique:
                    self.l = [x for x in self.l if not self.lmatch(x[0], a[0])]
                if self.top:
                    self.l.insert(0, (a[0], a[1]))
                else:
                    self.l.append((a[0], a[1]))
                return 'true'
            if op == 'get':
                i = self.lfind(a[0])
                return 'NULL' if i is None else hx(self.l[i][1])
            if op == 'getmulti':
                m = [x[1] for x in (self.l if self.fwd else reversed(self.l)) if self.lmatch(x[0], a[0])]
                return ('n=%d ' % len(m) + ','.join(hx(x) for x in m)) if m else 'NULL n=0'
            if op == 'remove':
                n = len(self.l)
                self.l = [x for x in self.l if not self.lmatch(x[0], a[0])]
                return str(n - len(self.l))
            if op == 'next':
                seq = self.l if self.fwd else list(reversed(self.l))
                i = 0 if self.cur is None else self.cur + 1
                if i >= len(seq):
                    return 'false'
                self.cur = i
                return hx(seq[i][0]) + '=' + hx(seq[i][1])
        if t in ('list', 'queue', 'stack', 'grow'):
            n = len(self.l)
            if op in ('addat', 'push', 'add', 'addstr', 'pushstr', 'pushint'):
                if op == 'addat':
                    idx, v = a[0], a[1]
                elif op == 'pushint':
                    idx, v = (-1 if t == 'queue' else 0), struct.pack('<q', a[0])
                elif op in ('pushstr',):
                    idx, v = (-1 if t == 'queue' else 0), a[0] + b'\0'
                elif op in ('push',):
                    idx, v = (-1 if t == 'queue' else 0), a[0]
                else:
                    idx, v = -1, a[0]
                if not v:
                    return 'false'
                if self.max and n >= self.max:
                    return 'false'
                p = self.norm_add(idx, n)
                if p is None:
                    return 'false'
                self.l.insert(p, v)
                return 'true'
            if op in ('getat', 'get', 'getstr', 'getint', 'popat', 'pop', 'popstr', 'popint', 'removeat'):
                idx = a[0] if op in ('getat', 'popat', 'removeat') else 0
                p = self.norm_get(idx, n)
                if p is None:
                    return {'removeat': 'false', 'getint': '0', 'popint': '0'}.get(op, 'NULL')
                v = self.l[p]
                if op.startswith('pop') or op == 'removeat':
                    del self.l[p]
                if op == 'removeat':
                    return 'true'
                if op in ('getint', 'popint'):
                    return str(struct.unpack('<q', v[:8].ljust(8, b'\0'))[0]) if len(v) >= 8 else None
                if op in ('getstr', 'popstr'):
                    w = v[:-1] + b'\0'
                    return hx(w[:w.index(b'\0') + 1])
                return hx(v)
            if op == 'toarray':
                return hx(b''.join(self.l)) if self.l else 'NULL'
            if op == 'tostring':
                if not self.l:
                    return 'NULL'
                s = b''.join(x[:-1] if x.endswith(b'\0') else x for x in self.l) + b'\0'
                return hx(s[:s.index(b'\0') + 1])
            if op == 'reverse':
                self.l.reverse()
                return 'ok'
            if op == 'next':
                i = 0 if self.cur is None else self.cur + 1
                if i >= len(self.l):
                    return 'false'
                self.cur = i
                return hx(self.l[i])
            if op == 'setsize':
                old, self.max = self.max, a[0]
                return str(old)
        if t == 'vec':
            n = len(self.l)
            if op == 'addself':
                j = self.norm_get(a[1], n)
                return 'noself' if j is None else self.apply1('addat', [a[0], self.l[j]])
            if op in ('addat', 'addlast', 'addfirst'):
                idx, v = (a[0], a[1]) if op == 'addat' else ((n, a[0]) if op == 'addlast' else (0, a[0]))
                if idx < 0:
                    idx += n
                if idx > n or idx < 0:
                    return 'false' if idx > n else None
                if n >= self.max:
                    self.max = (self.max + 1) * 2 if self.policy == 'double' else self.max + self.initnum if self.policy == 'linear' else self.max + 1
                self.l.insert(idx, v)
                return 'true'
            if op in ('getat', 'popat', 'removeat', 'setat'):
                p = self.norm_get(a[0], n)
                if p is None:
                    return 'false' if op in ('removeat', 'setat') else 'NULL'
                v = self.l[p]
                if op == 'setat':
                    self.l[p] = a[1]
                    return 'true'
                if op != 'getat':
                    del self.l[p]
                return 'true' if op == 'removeat' else hx(v)
            if op == 'resize':
                self.max = a[0]
                self.l = self.l[:a[0]]
                return 'true'
            if op == 'reverse':
                self.l.reverse()
                return 'ok'
            if op == 'toarray':
                return hx(b''.join(self.l)) if self.l else 'NULL'
            if op == 'next':
                i = 0 if self.cur is None else self.cur
                if i >= len(self.l):
                    return 'false'
                self.cur = i + 1
                return hx(self.l[i])
        return None


def parse_dump(typ, s):
    """canonical contents from the harness' dump of instance A (same form as Ref.contents())"""
    if s == 'none':
        return None
    if typ == 'tree':
        m = re.match(r'num=(\d+) (.*)$', s)
        items = [(unhex(k) if k != 'NULL' else None, unhex(v)) for k, v in re.findall(r'\([RB] (\S+?)=(\S+) ', m.group(2))]
        return ('tree', int(m.group(1)), sorted(items, key=lambda kv: (kv[0] is None, kv[0] or b'')))
    if typ == 'hash':
        m = re.match(r'num=(\d+) range=(\d+) ?(.*)$', s)
        items = []
        for chain in re.findall(r'\d+\[([^\]]*)\]', m.group(3)):
            for kv in chain.split(','):
                k, v = kv.split('=')
                items.append((unhex(k), unhex(v)))
        return ('hash', int(m.group(1)), sorted(items))
    if typ == 'ltbl':
        m = re.match(r'num=(\d+) ?(.*)$', s)
        items = [tuple(unhex(x) for x in kv.split('=')) for kv in m.group(2).split(',') if kv]
        return ('ltbl', int(m.group(1)), items)
    if typ in ('list', 'queue', 'stack', 'grow'):
        m = re.match(r'num=(\d+) datasum=(\d+) max=(\d+) ?(.*)$', s)
        return (typ, int(m.group(1)), int(m.group(2)), [unhex(x) for x in m.group(4).split(',') if x])
    if typ == 'vec':
        m = re.match(r'num=(\d+) max=(\d+) objsize=(\d+) (\S+)$', s)
        return ('vec', int(m.group(1)), int(m.group(3)), unhex(m.group(4)))
    if typ == 'harr':
        m = re.match(r'max=(\d+) used=(\d+) num=(\d+)', s)
        return ('harr', int(m.group(3)))


# ------------------------------------------------------------------ harness output
HEAD = re.compile(r'r=(.*) e=(\S+) inj=(\d) rep=(\w+) app=(\d)(?: RESDIFF B=(.*))?$')


def parse_line(l):
    f = l.split(' | ')
    d = {'op': f[0], 'raw': l}
    if len(f) < 8:
        d['abort'] = f[1].split(' ')[0] if len(f) > 1 else 'MISSING'      # CRASH / TIMEOUT / DEAD
        m = re.search(r'nreq=(\d+)', l)
        d['nreq'] = int(m.group(1)) if m else 0
        return d
    m = HEAD.match(f[1])
    d.update(r=m.group(1), errno=m.group(2), inj=int(m.group(3)), rep=m.group(4), app=int(m.group(5)), resdiff=m.group(6))
    d['ev'] = [x for x in f[2][3:].split(',') if x]
    d['cp'] = [x for x in f[3][3:].split(',') if x]
    d['own'] = [int(x) for x in f[4][4:].split(',') if x]
    m = re.match(r'lock=(-?\d+) flags=(\S+)(?: leak=(\S+))?(?: leakB=(\d+))?', f[5])
    d['lock'] = int(m.group(1))
    d['flags'] = {} if m.group(2) == '-' else {x.split(':')[0]: int(x.split(':')[1]) for x in m.group(2).split(',')}
    d['leak'] = m.group(3)
    d['leakB'] = m.group(4)
    d['A'] = f[6][2:]
    d['B'] = f[7][2:]
    m = re.match(r'chk=(\d+)(?: chkB=(\d+))?', f[8] if len(f) > 8 else 'chk=0')
    d['chk'] = int(m.group(1))
    d['nreq'] = sum(1 for e in d['ev'] if e[0] in 'axr')
    return d


def decode_args(typ, op, words):
    """op line words -> python values for Ref.apply"""
    def b(x):
        return unhex(x)
    if not words:
        return []
    if op in ('put',):
        return [b(words[0]), b(words[1]) if len(words) > 1 else b'']
    if op == 'putself':
        return [b(words[0]), [int(x) for x in words[1].split(':')]]
    if op == 'addself':
        return [int(words[0]), int(words[1])]
    if op == 'putstrf':
        return [b(words[0]), int(words[1])]
    if op == 'addstrf':
        return [int(words[0])]
    if op in ('get', 'remove', 'removeself', 'near', 'getmulti', 'push', 'pushstr', 'add', 'addstr', 'addlast', 'addfirst'):
        return [b(words[0])]
    if op in ('addat', 'setat'):
        return [int(words[0]), b(words[1])]
    if op in ('getat', 'popat', 'removeat', 'resize', 'setsize', 'pushint'):
        return [int(words[0])]
    return []


# ------------------------------------------------------------------ generators
class Hist:
    """one history: header 'new ...', prefix ops, the target op (index), tail ops, 'free'"""
    def __init__(self, typ, newargs, prefix, target, tail, label):
        self.typ, self.newargs, self.prefix, self.target, self.tail, self.label = typ, newargs, prefix, target, tail, label
        self.inject = None                     # ('fail'|'failfrom', k)

    def lines(self):
        new = 'new %s %s' % (self.typ, ' '.join(str(x) for x in self.newargs))
        inj = ['%s %d' % self.inject] if self.inject else []
        if self.target == 'new':
            return inj + [new] + self.tail + ['free']
        return [new] + self.prefix + inj + [self.target] + self.tail + ['free']

    def target_index(self):
        """index of the target op among the non-directive lines"""
        return 0 if self.target == 'new' else 1 + len(self.prefix)

    def with_injection(self, kind, k):
        h = Hist(self.typ, self.newargs, self.prefix, self.target, self.tail, self.label)
        h.inject = (kind, k)
        return h


def tree_states(rng, quick):
    sts = [('empty', [])]
    orders = {'1': [3], '2asc': [2, 5], '2desc': [5, 2], '3asc': [1, 4, 7], '3desc': [7, 4, 1], '3mid': [4, 1, 7],
              '7asc': list(range(7)), '7desc': list(range(6, -1, -1)), '7mix': [3, 1, 5, 0, 2, 4, 6], '20asc': list(range(20)), '20desc': list(range(19, -1, -1))}
    sh = list(range(20))
    rng.shuffle(sh)
    orders['20rnd'] = sh
    for name, o in orders.items():
        sts.append((name, ['put %s %s' % (hexs(tkey(i)), hexs(val(i)) if i % 5 != 4 else '-') for i in o]))
    # a state reached through removals (more colour variety)
    sts.append(('20rm', ['put %s %s' % (hexs(tkey(i)), hexs(val(i))) for i in sh] + ['remove %s' % hexs(tkey(i)) for i in sh[:9]]))
    return sts


def keys_of(prefix):
    ks = []
    for l in prefix:
        w = l.split()
        if w[0] == 'put' and w[1] not in ks:
            ks.append(w[1])
        if w[0] == 'remove' and w[1] in ks:
            ks.remove(w[1])
    return ks


FLENS = (10, 255, 256, 257, 1023, 1024, 1025, 2500, 5000)         # formatted lengths around the 1024 / 2048 / 4096 buffer steps of DYNAMIC_VSPRINTF


def gen_tree(rng, quick):
    H = []
    for opt in (0, 1):
        for k in range(1):
            H.append(Hist('tree', [opt], [], 'new', ['put 6b31 0102', 'get 6b31', 'size'], 'ctor'))
    for name, pre in tree_states(rng, quick):
        ks = sorted(keys_of(pre))
        opt = 1 if name in ('3asc', '7mix', '20rnd') else 0
        between = hexs(bytes([0x6b, 0x10 + 2 * 3 + 1]))
        tail = ['put 6b7e 4242', 'get %s' % (ks[0] if ks else '6b7e'), 'first', 'next', 'next', 'min', 'max', 'remove %s' % (ks[-1] if ks else '6b7e'), 'size']
        tg = ['put 6b01 aa00', 'put 6b7f 00', 'put %s 1234' % between, 'put 6b02 -', 'min', 'max', 'near %s' % between, 'next']
        pick = ks if len(ks) <= 7 else [ks[0], ks[len(ks) // 2], ks[-1]] + rng.sample(ks, 3 if quick else 8)
        for k in pick:
            tg += ['put %s 77007700' % k, 'get %s' % k, 'remove %s' % k, 'near %s' % k]
        for k in pick[:3]:                           # the container's own pointers (newmem=false) handed back to put()
            tg += ['removeself %s' % k, 'putself %s 0:-1:0' % k, 'putself %s 1:-1:1' % k, 'putself %s 0:1:1' % k]
        if ks:
            tg += ['put %s -' % ks[0]]
        for t in tg:
            H.append(Hist('tree', [opt], pre, t, tail, 'tree/%s' % name))
        # getnext in mid-walk
        if len(ks) >= 3:
            H.append(Hist('tree', [opt], pre + ['first', 'next', 'next'], 'next', ['next', 'next'] + tail, 'tree/%s/midwalk' % name))
        H.append(Hist('tree', [opt], pre + ['first'], 'next', ['next', 'next', 'next'] + tail, 'tree/%s/retry' % name))
        if 0 < len(ks) <= 7:                         # complete walk, a removal (of each key in turn: some change the root), complete walk again
            wk = ['first'] + ['next'] * (len(ks) + 1)
            for k in ks:
                H.append(Hist('tree', [opt], pre + wk, 'remove %s' % k, wk + ['near %s' % ks[0], 'next', 'next'] + tail, 'tree/%s/walk-remove-walk' % name))
        if name in ('empty', '3mid', '20rnd'):
            for L in FLENS:
                H.append(Hist('tree', [opt], pre, 'putstrf 6b41 %d' % L, ['get 6b4100'] + tail, 'tree/%s/putstrf-new' % name))
                H.append(Hist('tree', [opt], pre + ['putstrf 6b41 12'], 'putstrf 6b41 %d' % L, ['get 6b4100'] + tail, 'tree/%s/putstrf-old' % name))
    return H


def gen_hash(rng, quick):
    H = []
    for opt in (0, 1):
        for rg in (0, 1, 3):
            H.append(Hist('hash', [rg, opt], [], 'new', ['put 6b3031 0102', 'get 6b3031', 'size'], 'ctor'))
    for rg in (1, 3, 0):
        for n in (0, 1, 2, 3, 7, 20):
            if rg == 0 and n not in (0, 3, 20):
                continue
            pre = ['put %s %s' % (hexs(skey(i)), hexs(val(i))) for i in range(n)]
            if n == 20:
                pre += ['remove %s' % hexs(skey(i)) for i in (0, 7, 19)]
            ks = keys_of(pre)
            opt = 1 if n in (2, 7) else 0
            tail = ['put 7a7a 4242', 'get %s' % (ks[0] if ks else '7a7a'), 'first', 'next', 'next', 'remove %s' % (ks[-1] if ks else '7a7a'), 'size']
            tg = ['put 6e6577 aa00', 'put 6e657732 -', 'next', 'get 6e6f6e65']
            pick = ks if len(ks) <= 3 else [ks[0], ks[-1]] + rng.sample(ks, 2 if quick else 5)
            for k in pick:
                tg += ['put %s 77007700' % k, 'put %s -' % k, 'get %s' % k, 'remove %s' % k]
            for k in pick[:3]:                       # the container's own pointers (newmem=false) handed back to put()
                tg += ['removeself %s' % k, 'putself %s 0:-1:0' % k, 'putself %s 1:-1:1' % k, 'putself %s 0:1:1' % k]
            for t in tg:
                H.append(Hist('hash', [rg, opt], pre, t, tail, 'hash/r%d/n%d' % (rg, n)))
            if len(ks) >= 3:
                H.append(Hist('hash', [rg, opt], pre + ['first', 'next', 'next'], 'next', ['next', 'next'] + tail, 'hash/r%d/n%d/midwalk' % (rg, n)))
            H.append(Hist('hash', [rg, opt], pre + ['first'], 'next', ['next', 'next', 'next'] + tail, 'hash/r%d/n%d/retry' % (rg, n)))
            if n in (0, 3, 20) and rg in (1, 0):
                for L in FLENS:
                    H.append(Hist('hash', [rg, opt], pre, 'putstrf 6e6577 %d' % L, ['get 6e6577'] + tail, 'hash/r%d/n%d/putstrf-new' % (rg, n)))
                    if ks:
                        H.append(Hist('hash', [rg, opt], pre, 'putstrf %s %d' % (ks[len(ks) // 2], L), ['get %s' % ks[len(ks) // 2]] + tail, 'hash/r%d/n%d/putstrf-old' % (rg, n)))
    return H


def gen_ltbl(rng, quick):
    H = []
    for opt in (0, 1, 2 | 1, 4 | 8, 16):
        H.append(Hist('ltbl', [opt], [], 'new', ['put 6b3031 0102', 'get 6b3031', 'size'], 'ctor'))
    for opt in (0, 2, 8, 16, 2 | 4 | 16, 1 | 2 | 8):
        for n in (0, 1, 2, 3, 7, 20):
            if opt not in (0, 2) and n in (1, 2):
                continue
            # names repeat so that getmulti finds several: k00 k01 k02 k00 k01 ... ; with n = 20: 12 x "dup"
            names = [skey(i % 3) for i in range(n)] if n < 20 else [b'dup' if i % 5 != 4 else skey(i) for i in range(n)]
            pre = ['put %s %s' % (hexs(nm), hexs(val(i))) for i, nm in enumerate(names)]
            uniq = []
            for nm in names:
                if nm not in uniq:
                    uniq.append(nm)
            tail = ['put 7a7a 4242', 'get %s' % hexs(uniq[0] if uniq else b'zz'), 'getmulti %s' % hexs(uniq[0] if uniq else b'zz'), 'first', 'next', 'next',
                    'remove %s' % hexs(uniq[-1] if uniq else b'zz'), 'size']
            tg = ['put 6e6577 aa00', 'get 6e6f6e65', 'getmulti 6e6f6e65', 'next', 'put 4b3030 5555']
            for nm in uniq[:3]:
                tg += ['put %s 77007700' % hexs(nm), 'get %s' % hexs(nm), 'getmulti %s' % hexs(nm), 'remove %s' % hexs(nm)]
            for nm in uniq[:2]:                      # the container's own pointers (newmem=false) handed back to put()
                tg += ['removeself %s' % hexs(nm), 'putself %s 0:-1:0' % hexs(nm), 'putself %s 1:-1:1' % hexs(nm), 'putself %s 0:1:1' % hexs(nm)]
            for t in tg:
                H.append(Hist('ltbl', [opt], pre, t, tail, 'ltbl/o%d/n%d' % (opt, n)))
            if n >= 3:
                H.append(Hist('ltbl', [opt], pre + ['first', 'next', 'next'], 'next', ['next', 'next'] + tail, 'ltbl/o%d/n%d/midwalk' % (opt, n)))
            H.append(Hist('ltbl', [opt], pre + ['first'], 'next', ['next', 'next', 'next'] + tail, 'ltbl/o%d/n%d/retry' % (opt, n)))
            if n in (0, 3, 20) and opt in (0, 2, 1 | 2 | 8):
                for L in FLENS:
                    H.append(Hist('ltbl', [opt], pre, 'putstrf 6e6577 %d' % L, ['get 6e6577'] + tail, 'ltbl/o%d/n%d/putstrf-new' % (opt, n)))
                    if uniq:
                        H.append(Hist('ltbl', [opt], pre, 'putstrf %s %d' % (hexs(uniq[0]), L), ['get %s' % hexs(uniq[0])] + tail, 'ltbl/o%d/n%d/putstrf-old' % (opt, n)))
    return H


def gen_list(rng, quick):
    H = []
    for opt in (0, 1):
        H.append(Hist('list', [opt], [], 'new', ['addat 0 0102', 'getat 0', 'size'], 'ctor'))
    for n in (0, 1, 2, 3, 7, 20):
        pre = ['addat -1 %s' % hexs(val(i)) for i in range(n)]
        opt = 1 if n in (2, 7) else 0
        tail = ['addat -1 4242', 'addat 0 4343', 'getat 0', 'getat -1', 'first', 'next', 'next', 'popat 0', 'removeat -1', 'toarray', 'size']
        idxs = sorted(set([0, -1, 1, n // 2, n, n - 1, -n, n + 1, -n - 2]))
        tg = ['toarray', 'tostring', 'reverse', 'next']
        for i in idxs:
            tg += ['addat %d aa00' % i, 'getat %d' % i, 'popat %d' % i, 'removeat %d' % i]
        for t in tg:
            H.append(Hist('list', [opt], pre, t, tail, 'list/n%d' % n))
        if n >= 3:
            H.append(Hist('list', [opt], pre + ['first', 'next', 'next'], 'next', ['next', 'next'] + tail, 'list/n%d/midwalk' % n))
        H.append(Hist('list', [opt], pre + ['first'], 'next', ['next', 'next', 'next'] + tail, 'list/n%d/retry' % n))
    # bounded list
    H.append(Hist('list', [0], ['setsize 2', 'addat 0 01', 'addat 0 02'], 'addat 0 03', ['size', 'popat 0', 'addat 0 04'], 'list/bounded'))
    return H


def gen_vec(rng, quick):
    H = []
    for opt in (2, 3, 4, 5, 8, 9):
        for mx in (0, 1, 4):
            H.append(Hist('vec', [mx, 3, opt], [], 'new', ['addlast 010203', 'getat 0', 'size'], 'ctor'))
    for opt in (2, 4, 8, 9):
        for osz in (1, 3, 8):
            if osz == 8 and opt != 2:
                continue
            for mx in (0, 1, 4):
                for n in (0, 1, 2, 3, 4, 7, 20):
                    if n in (7, 20) and (mx != 4 or osz != 3):
                        continue
                    pre = ['addlast %s' % hexs(val(i, osz)) for i in range(n)]
                    tail = ['addlast %s' % hexs(val(40, osz)), 'addfirst %s' % hexs(val(41, osz)), 'getat 0', 'getat -1', 'first', 'next', 'next', 'popat 0', 'removeat -1',
                            'toarray', 'size']
                    idxs = sorted(set([0, -1, 1, n // 2, n, n - 1, -n, n + 1]))
                    tg = ['toarray', 'reverse', 'next', 'addlast %s' % hexs(val(30, osz)), 'addfirst %s' % hexs(val(31, osz)), 'resize 0', 'resize %d' % max(n - 1, 1), 'resize %d' % (n + 3),
                          'resize %d' % max(n, 1)]
                    for i in idxs:
                        tg += ['addat %d %s' % (i, hexs(val(32, osz))), 'getat %d' % i, 'popat %d' % i]
                    if n:                            # the new element is one of the vector's own (pointer from getat(j, false))
                        tg += ['addself 0 -1', 'addself -1 0', 'addself %d %d' % (n, n // 2)]
                    for t in tg:
                        H.append(Hist('vec', [mx, osz, opt], pre, t, tail, 'vec/o%d/s%d/m%d/n%d' % (opt, osz, mx, n)))
                    H.append(Hist('vec', [mx, osz, opt], pre + ['first'], 'next', ['next', 'next', 'next'] + tail, 'vec/o%d/s%d/m%d/n%d/retry' % (opt, osz, mx, n)))
    # element sizes at and around the sizes a fixed scratch buffer would have (the reversal's temporary, copies handed out)
    for osz in (16, 63, 64, 65, 255, 256, 257, 300):
        for n in (2, 3):
            pre = ['addlast %s' % hexs(val(i, osz)) for i in range(n)]
            tail = ['getat 0', 'getat -1', 'toarray', 'size']
            for t in ('reverse', 'toarray', 'getat 1', 'popat 0', 'addfirst %s' % hexs(val(31, osz)), 'addself 0 -1'):
                H.append(Hist('vec', [2, osz, 2], pre, t, tail, 'vec/o2/s%d/m2/n%d' % (osz, n)))
    return H


def gen_wrappers(rng, quick):
    H = []
    for typ in ('queue', 'stack'):
        for opt in (0, 1):
            H.append(Hist(typ, [opt], [], 'new', ['push 0102', 'get', 'size'], 'ctor'))
        for n in (0, 1, 2, 3, 7):
            pre = ['push %s' % hexs(val(i)) for i in range(n)]
            opt = 1 if n in (2, 7) else 0
            tail = ['push 4242', 'get', 'getat -1', 'pop', 'size']
            tg = ['push aa00', 'pushstr 616263', 'pushint 77', 'pop', 'get', 'getat 1', 'popat 1', 'popat -1', 'getat -1']
            for t in tg:
                H.append(Hist(typ, [opt], pre, t, tail, '%s/n%d' % (typ, n)))
        for pre, tg in ((['pushstr 616263', 'pushstr 78'], ['popstr', 'getstr']), (['pushint 5', 'pushint -9'], ['popint', 'getint']),
                        # elements without a terminating NUL read as strings (the last byte is given up for the terminator)
                        (['push 41424344', 'push 5a'], ['popstr', 'getstr']), (['push 4142434445464748494a', 'pushstr 61', 'push 7a7a7a'], ['popstr', 'getstr'])):
            for t in tg:
                H.append(Hist(typ, [0], pre, t, ['size', 'push 01', 'pop'], '%s/typed' % typ))
    for opt in (0, 1):
        H.append(Hist('grow', [opt], [], 'new', ['add 0102', 'toarray', 'size'], 'ctor'))
    for n in (0, 1, 2, 3, 7, 20):
        pre = ['add %s' % hexs(val(i)) for i in range(n)]
        opt = 1 if n in (2, 7) else 0
        tail = ['add 4242', 'addstr 616263', 'toarray', 'tostring', 'size']
        for t in ['add aa00', 'addstr 616263', 'toarray', 'tostring']:
            H.append(Hist('grow', [opt], pre, t, tail, 'grow/n%d' % n))
        if n in (0, 3, 20):
            for L in (0,) + FLENS:
                H.append(Hist('grow', [opt], pre, 'addstrf %d' % L, tail, 'grow/n%d/addstrf' % n))
    return H


def gen_harr(rng, quick):
    H = []
    for n in (0, 2):
        pre = ['put %s %s' % (hexs(skey(i)), hexs(val(i))) for i in range(n)]
        for L in FLENS:
            H.append(Hist('harr', [256], pre, 'putstrf 6e6577 %d' % L, ['get 6e6577', 'first', 'next', 'size'], 'harr/s256/n%d/putstrf-new' % n))
            if n:
                H.append(Hist('harr', [256], pre, 'putstrf %s %d' % (hexs(skey(0)), L), ['get %s' % hexs(skey(0)), 'size'], 'harr/s256/n%d/putstrf-old' % n))
    for slots in (8, 16):
        H.append(Hist('harr', [slots], [], 'new', ['put 6b3031 0102', 'get 6b3031', 'size'], 'ctor'))
        for n in (0, 1, 2, 3):
            pre = ['put %s %s' % (hexs(skey(i)), hexs(val(i) if i != 2 else val(6, 70 if slots == 16 else 40))) for i in range(n)]
            ks = keys_of(pre)
            tail = ['put 7a7a 4242', 'get %s' % (ks[0] if ks else '7a7a'), 'first', 'next', 'size']
            tg = ['put 6e6577 aa00', 'next', 'get 6e6f6e65']
            for k in ks:
                tg += ['get %s' % k, 'put %s 7700' % k, 'remove %s' % k]
            for t in tg:
                H.append(Hist('harr', [slots], pre, t, tail, 'harr/s%d/n%d' % (slots, n)))
            if n >= 2:
                H.append(Hist('harr', [slots], pre + ['first', 'next'], 'next', ['next', 'next'] + tail, 'harr/s%d/n%d/midwalk' % (slots, n)))
            H.append(Hist('harr', [slots], pre + ['first'], 'next', ['next', 'next', 'next'] + tail, 'harr/s%d/n%d/retry' % (slots, n)))
    return H


GENS = {'tree': gen_tree, 'hash': gen_hash, 'ltbl': gen_ltbl, 'list': gen_list, 'vec': gen_vec, 'wrap': gen_wrappers, 'harr': gen_harr}


def all_hists(rng, quick, only=None):
    H = []
    for name, g in GENS.items():
        if only and name not in only:
            continue
        H += g(rng, quick)
    return H


# ------------------------------------------------------------------ running
def run_hists(ctx, exe, hists, timeout=900, nproc=None):
    """run histories through the harness (split over processes); returns list of (hist, [parsed lines of non-directive ops])"""
    nproc = nproc or min(NCPU, 8)
    chunks = [hists[i::nproc] for i in range(nproc)]

    def one(ch):
        res, deaths = [], 0
        while ch:
            data = '\n'.join('\n'.join(h.lines()) for h in ch) + '\n'
            rc, o, e = ctx.run([exe], inp=data.encode(), timeout=timeout)
            txt = o.decode('latin1')
            out = txt.splitlines()
            if txt and not txt.endswith('\n'):
                out = out[:-1]                     # a partial line of the op during which the process died
            sizes = out[0] if out and out[0].startswith('sizes') else ''
            out = out[1:] if sizes else out
            p, died_at = 0, None
            for k, h in enumerate(ch):
                n = len([l for l in h.lines() if not l.startswith('fail')])
                recs = [parse_line(l) for l in out[p:p + n]]
                if len(recs) < n and died_at is None and (rc != 0 or True):
                    # the harness process itself died inside this history (a fault outside the guarded call, an allocation request
                    # of absurd size, ...): the first op without an answer is reported as a crash of that op
                    recs.append({'abort': 'CRASH', 'nreq': 0, 'raw': 'process exit %s: %s' % (rc, e.decode('latin1')[-300:])})
                    died_at = k
                    res.append((h, recs, sizes))
                    break
                res.append((h, recs, sizes))
                p += n
            if died_at is None:
                break
            deaths += 1
            ch = ch[died_at + 1:] if deaths < 20 else []
        return res
    with ThreadPoolExecutor(nproc) as ex:
        parts = list(ex.map(one, chunks))
    return [x for p in parts for x in p]


# ------------------------------------------------------------------ monitors
MEMFLAGS = ('overlap', 'oob', 'badfree', 'doublefree', 'crossfree', 'uaf', 'freed-returned', 'wrote-returned', 'dangling')


def opkind(line):
    return line.split()[0]


def monitor(h, recs):
    """Evaluate the three properties on one history. Returns list of (pids, signature, title, failing line index)."""
    out = []
    lines = [l for l in h.lines() if not l.startswith('fail')]
    ref = None
    ti = h.target_index()
    injk = h.inject
    tkind = 'new' if h.target == 'new' else opkind(h.target)
    MEM = {'C11', 'C15'} if injk else {'C11'}
    STATE = {'C15'} if injk else {'C11', 'C12'}
    CONTENT = {'C15'} if injk else {'C12'}

    def sig(pids, observed, i, **kw):
        s = {'container': h.typ, 'op': opkind(lines[i]) if i < len(lines) else '?', 'observed': observed}
        if injk:
            s['injected_op'] = tkind
            s['alloc'] = injk[1]
            s['mode'] = injk[0]
        s.update(kw)
        out.append((set(pids), s, '%s %s: %s%s' % (h.typ, s['op'], observed, (' after %s %d in %s' % (injk[0], injk[1], tkind)) if injk else ''), i))
    for i, (l, d) in enumerate(zip(lines, recs)):
        w = l.split()
        op = w[0]
        if 'abort' in d:
            if d['abort'] in ('CRASH', 'TIMEOUT'):
                sig(MEM | STATE, d['abort'].lower(), i, request=d.get('nreq', 0))      # whatever is being checked, a call that dies fails it
            elif d['abort'] != 'DEAD':
                sig(MEM, 'harness-output-missing', i)
            break
        if op == 'new':
            ref = Ref(h.typ, h.newargs) if d['r'] == 'obj' else None
        injected_here = bool(d['inj'])
        failed = d['rep'] == 'fail'
        # -- C15 oracle: failure => unchanged; success => correct; always valid
        if d['B'] != 'same':
            if injected_here and failed:
                sig({'C15'}, 'changed-on-failure', i)
            elif i >= ti and injk:
                sig({'C15'}, 'state-differs-from-reference' if i == ti else 'later-state-differs', i)
            else:
                sig(STATE, 'state-differs-from-reference', i)
        if d['chk'] != 0:
            sig(MEM | STATE, 'invalid-structure', i, check=d['chk'])
        if d['resdiff'] is not None:
            sig(STATE, 'incorrect-completion' if injected_here else ('later-result-differs' if injk and i > ti else 'result-differs-from-reference'), i)
        if d['lock'] != 0:
            sig(MEM, 'lock-held', i, delta=d['lock'])
        if d['leak']:
            sig(MEM, 'leak', i)
        if d['leakB']:
            sig({'C11'}, 'leak-reference', i)
        for fl, n in d['flags'].items():
            if fl == 'returned-copy-changed':
                sig({'C12'}, fl, i)
            elif fl in ('freed-returned', 'wrote-returned'):
                sig({'C12', 'C11'}, fl, i)
            else:
                sig(MEM, fl, i)
        # -- plain reference: contents and results, byte for byte (C12 content part; C15 "completes correctly")
        if ref is not None and op != 'new':
            applied = not (injected_here and failed)
            if applied:
                if h.typ == 'harr' and op in ('put', 'putstrf'):       # capacity is C06's subject: take the implementation's verdict (a failed put may drop its key)
                    a = decode_args(h.typ, op, w[1:])
                    if op == 'putstrf':
                        a = [a[0], ftext(a[1]) + b'\0']
                    if d['r'] == 'true':
                        ref.d[a[0]] = a[1]
                    elif parse_dump('harr', d['A'])[1] != len(ref.d):
                        ref.d.pop(a[0], None)
                    exp = None
                else:
                    exp = ref.apply(op, decode_args(h.typ, op, w[1:]))
                if exp is not None and exp != d['r'] and op != 'free':
                    sig(CONTENT, 'wrong-result', i, expected=exp[:60])
            if op != 'free' and d['A'] != 'none':
                got = parse_dump(h.typ, d['A'])
                if got != ref.contents():
                    sig(CONTENT, 'wrong-contents', i)
                    break
        if op == 'free' and d['own']:
            sig({'C11'}, 'owned-after-free', i)
    return out


def inject_variants(h, nreq):
    """fail k (k = 1..nreq+1) and failfrom k (k = 1..nreq) for a history whose target makes nreq allocation requests"""
    v = []
    for k in range(1, nreq + 2):
        v.append(h.with_injection('fail', k))
    for k in range(1, nreq + 1):
        if nreq > 1 or True:
            v.append(h.with_injection('failfrom', k))
    return v


# ------------------------------------------------------------------ ledger correspondence: implementation vs extracted scripts
def model_input(h, recs):
    """driver lines for one history (uses a fresh reference replay to know positions / presence / sizes)"""
    out = []
    lines = h.lines()
    ref = None
    i = 0
    for l in lines:
        if l.startswith('fail'):
            out.append(l)
            continue
        d = recs[i] if i < len(recs) else {'abort': 'MISSING'}
        i += 1
        w = l.split()
        op = w[0]
        if 'abort' in d:
            break
        if op == 'new':
            out.append(l)
            ref = Ref(h.typ, h.newargs) if d['r'] == 'obj' else None
            continue
        if ref is None:
            out.append('none')
            continue
        a = decode_args(h.typ, op, w[1:])
        out.append(ref.model_op(op, a, d))
        if not (d['inj'] and d['rep'] == 'fail'):
            if h.typ == 'harr' and op in ('put', 'putstrf'):
                if op == 'putstrf':
                    a = [a[0], ftext(a[1]) + b'\0']
                if d['r'] == 'true':
                    ref.d[a[0]] = a[1]
                elif parse_dump('harr', d['A'])[1] != len(ref.d):
                    ref.d.pop(a[0], None)
            else:
                ref.apply(op, a)
    return out


MLINE = re.compile(r'(\w+) \| ev=(.*) \| cp=(.*) \| own=(.*) \| out=(\w+) mut=(\d) safe=(\d)$')


def dedup(l):
    r = []
    for x in l:
        if not r or r[-1] != x:
            r.append(x)
    return r


def compare_model(h, recs, mlines, asan=False):
    """first difference between the implementation's recorded ledger events and the script's prediction: (line index, what, impl, model) or None"""
    lines = [l for l in h.lines() if not l.startswith('fail')]
    prevA = None
    for i, d in enumerate(recs):
        if 'abort' in d:
            return None if d['abort'] == 'DEAD' else (i, 'abort', d['abort'], mlines[i] if i < len(mlines) else '')
        if i >= len(mlines):
            return (i, 'missing', d['raw'][:200], 'MISSING')
        ml = mlines[i]
        op = lines[i].split()[0]
        if ml.endswith('NOCONT'):
            if d['r'] != 'NOCONT':
                return (i, 'container', d['r'], 'NOCONT')
            continue
        m = MLINE.match(ml)
        if not m:
            return (i, 'model-line', d['raw'][:200], ml)
        mev = [x for x in m.group(2).split(',') if x]
        mcp = [x for x in m.group(3).split(',') if x]
        mown = [int(x) for x in m.group(4).split(',') if x]
        iev, icp = d['ev'], d['cp']
        if h.typ in ('tree', 'hash') and op in ('clear', 'free'):
            iev, mev = sorted(iev), sorted(mev)
        if h.typ == 'harr':
            icp, mcp = dedup(icp), dedup(mcp)
        if op == 'addself' and mcp and mcp[-1].endswith('<C'):
            # the script is the one of addat with a caller buffer; here the new element is read from the vector's own block
            mcp = mcp[:-1] + [mcp[-1][:-1] + mcp[-1][1:mcp[-1].index('<')]]
        if iev != mev:
            return (i, 'events', ','.join(d['ev']), m.group(2))
        if not asan and icp != mcp:
            return (i, 'copies', ','.join(d['cp'])[:300], m.group(3)[:300])
        if d['own'] != mown:
            return (i, 'owned-blocks', d['own'], mown)
        if (m.group(5) == 'failed') != (d['inj'] == 1 and d['rep'] == 'fail'):
            return (i, 'outcome', 'inj=%d rep=%s' % (d['inj'], d['rep']), m.group(5))
        if m.group(7) != '1':
            return (i, 'script-illegal-in-ledger', '', ml)
        if m.group(6) == '0' and m.group(5) != 'nothing' and prevA is not None and d['A'] != prevA and op not in ('new', 'free'):
            return (i, 'mutated-flag', d['A'][:200], 'script says the container is not modified')
        prevA = d['A']
    return None


def run_model(ctx, pairs, sizes, timeout=900, nproc=None):
    """pairs: [(hist, recs)] -> list of model output line lists (same order)"""
    nproc = nproc or min(NCPU, 8)
    idx = list(range(len(pairs)))
    chunks = [idx[i::nproc] for i in range(nproc)]
    res = [None] * len(pairs)

    def one(ch):
        if not ch:
            return
        inp, counts = [sizes], []
        for j in ch:
            ml = model_input(*pairs[j])
            counts.append(len([x for x in ml if not x.startswith('fail')]))
            inp += ml
        rc, o, e = ctx.driver([AREA], inp=('\n'.join(inp) + '\n').encode(), timeout=timeout)
        out = o.decode('latin1').splitlines()
        p = 0
        for j, c in zip(ch, counts):
            res[j] = out[p:p + c]
            p += c
        if rc != 0:
            ctx.broken.append(('correspondence:driver', 'driver exit %s: %s' % (rc, e.decode('latin1')[-400:])))
    with ThreadPoolExecutor(nproc) as ex:
        list(ex.map(one, chunks))
    return res


# ------------------------------------------------------------------ random histories (C11 / C12: "every operation history")
def rand_hist(rng, typ, nops):
    """a random history on one container: small key universe so that replacements, removals of present keys, duplicates dominate"""
    def v():
        return hexs(val(rng.randrange(12), rng.choice([None, None, 1, 2, 5, 17, 64, 200])))
    ops = []
    if typ == 'tree':
        new = [rng.choice([0, 1])]
        for _ in range(nops):
            k = hexs(tkey(rng.randrange(12)))
            ops.append(rng.choices(['put %s %s' % (k, rng.choice([v(), v(), '-'])), 'get ' + k, 'remove ' + k, 'min', 'max', 'first', 'next', 'near ' + k, 'clear', 'size',
                                    'putstrf %s %d' % (k, rng.choice([0, 3, 1023, 1024, 2047, 2048, rng.randrange(3000)]))],
                                   weights=[30, 12, 14, 3, 3, 3, 12, 5, 0.7, 2, 3])[0])
    elif typ == 'hash':
        new = [rng.choice([0, 1, 2, 5]), rng.choice([0, 1])]
        for _ in range(nops):
            k = hexs(skey(rng.randrange(14)))
            ops.append(rng.choices(['put %s %s' % (k, rng.choice([v(), v(), '-'])), 'get ' + k, 'remove ' + k, 'first', 'next', 'clear', 'size',
                                    'putstrf %s %d' % (k, rng.choice([0, 3, 1023, 1024, 2047, 2048, rng.randrange(3000)]))], weights=[30, 12, 14, 3, 12, 0.7, 2, 3])[0])
    elif typ == 'ltbl':
        new = [rng.choice([0, 1, 2, 3, 4, 8, 16, 2 | 16, 4 | 8, 2 | 4 | 8 | 16, rng.randrange(32)])]
        for _ in range(nops):
            k = hexs(rng.choice([skey(rng.randrange(5)), b'Dup', b'dup', b'DUP']))
            ops.append(rng.choices(['put %s %s' % (k, v()), 'get ' + k, 'getmulti ' + k, 'remove ' + k, 'first', 'next', 'clear', 'size',
                                    'putstrf %s %d' % (k, rng.choice([0, 3, 1023, 1024, 2047, 2048, rng.randrange(3000)]))], weights=[34, 10, 8, 8, 3, 12, 0.7, 2, 3])[0])
    elif typ == 'list':
        new = [rng.choice([0, 1])]
        for _ in range(nops):
            i = rng.choice([0, -1, 1, -2, rng.randrange(-12, 13)])
            ops.append(rng.choices(['addat %d %s' % (i, v()), 'getat %d' % i, 'popat %d' % i, 'removeat %d' % i, 'toarray', 'tostring', 'reverse', 'first', 'next', 'clear', 'size'],
                                   weights=[34, 10, 10, 8, 3, 3, 3, 2, 10, 0.7, 2])[0])
    elif typ == 'vec':
        osz = rng.choice([1, 2, 3, 8, 16])
        new = [rng.choice([0, 1, 2, 4]), osz, rng.choice([2, 3, 4, 5, 8, 9])]
        for _ in range(nops):
            i = rng.choice([0, -1, 1, rng.randrange(-10, 11)])
            e = hexs(val(rng.randrange(12), osz))
            ops.append(rng.choices(['addat %d %s' % (i, e), 'addlast ' + e, 'addfirst ' + e, 'setat %d %s' % (i, e), 'getat %d' % i, 'popat %d' % i, 'removeat %d' % i,
                                    'resize %d' % rng.randrange(0, 9), 'reverse', 'toarray', 'first', 'next', 'clear', 'size'],
                                   weights=[14, 16, 6, 6, 8, 8, 8, 3, 3, 3, 2, 8, 0.7, 2])[0])
    elif typ in ('queue', 'stack'):
        new = [rng.choice([0, 1])]
        for _ in range(nops):
            i = rng.choice([0, -1, 1, rng.randrange(-6, 7)])
            ops.append(rng.choices(['push ' + v(), 'pushstr 616263', 'pushint %d' % rng.randrange(-5, 1000), 'pop', 'popat %d' % i, 'get', 'getat %d' % i, 'clear', 'size'],
                                   weights=[30, 5, 5, 14, 8, 8, 8, 0.7, 2])[0])
    elif typ == 'grow':
        new = [rng.choice([0, 1])]
        for _ in range(nops):
            ops.append(rng.choices(['add ' + v(), 'addstr 616263', 'toarray', 'tostring', 'clear', 'size', 'addstrf %d' % rng.choice([0, 3, 1023, 1024, 2048, rng.randrange(3000)])],
                                   weights=[30, 8, 6, 6, 0.7, 2, 4])[0])
    else:
        new = [rng.choice([8, 16, 32])]
        for _ in range(nops):
            k = hexs(skey(rng.randrange(6)))
            ops.append(rng.choices(['put %s %s' % (k, v()), 'get ' + k, 'remove ' + k, 'first', 'next', 'clear', 'size'], weights=[20, 14, 8, 3, 10, 0.5, 2])[0])
    # a walk is only meaningful on an unmodified container (the cursor points into it): restart it after every modification
    fixed, dirty = [], True
    for o in ops:
        k = o.split()[0]
        if k == 'next' and dirty:
            fixed.append('first')
            dirty = False
        if k not in ('get', 'getat', 'getmulti', 'min', 'max', 'size', 'toarray', 'tostring', 'first', 'next'):
            dirty = True                      # (find_nearest: continuing after it is specified only when no walk is unfinished - C04)
        fixed.append(o)
    ops = fixed
    h = Hist(typ, new, ops[:-1], ops[-1], [], 'random/%s' % typ)
    return h


def random_hists(rng, n, nops):
    types = ['tree', 'hash', 'ltbl', 'list', 'vec', 'queue', 'stack', 'grow', 'harr']
    return [rand_hist(rng, types[i % len(types)], rng.randrange(nops // 3, nops + 1)) for i in range(n)]


def rand_inject(rng, h, recs):
    """a copy of a (random) history in which one allocating op is hit by an injected failure"""
    lines = [l for l in h.lines() if not l.startswith('fail')]
    cand = [i for i, d in enumerate(recs) if 'nreq' in d and d['nreq'] > 0 and 0 < i < len(lines) - 1]
    if not cand:
        return None
    i = rng.choice(cand)
    k = rng.randrange(1, recs[i]['nreq'] + 1)
    body = lines[1:-1]
    g = Hist(h.typ, h.newargs, body[:i - 1], body[i - 1], body[i:], h.label + '/injected')
    g.inject = (rng.choice(['fail', 'failfrom']), k)
    return g


# ------------------------------------------------------------------ sanitizer build (failing-input search engine, thorough tier)
def run_asan(ctx, exe, hists, pid, timeout=1800):
    """run histories through the ASan+UBSan+LSan build; a sanitizer report is a concrete failing input"""
    nproc = min(NCPU, 8)
    chunks = [hists[i::nproc] for i in range(nproc)]
    found = []
    env = dict(os.environ, ASAN_OPTIONS='detect_leaks=1:abort_on_error=0:exitcode=23:allocator_may_return_null=1', UBSAN_OPTIONS='print_stacktrace=0')
    results = []

    def one(ch):
        todo = list(ch)
        res = []
        rounds = 0
        while todo and rounds < 6:
            rounds += 1
            data = '\n'.join('\n'.join(h.lines()) for h in todo) + '\n'
            rc, o, e = ctx.run([exe], inp=data.encode(), timeout=timeout, env=env)
            out = o.decode('latin1').splitlines()
            out = out[1:] if out and out[0].startswith('sizes') else out
            p = 0
            done = 0
            for h in todo:
                n = len([l for l in h.lines() if not l.startswith('fail')])
                if p + n > len(out):
                    break
                res.append((h, [parse_line(l) for l in out[p:p + n]]))
                p += n
                done += 1
            if rc == 0 and done == len(todo):
                break
            err = e.decode('latin1')
            m = re.search(r'(ERROR: AddressSanitizer: [\w-]+|ERROR: LeakSanitizer: [\w ]+|runtime error: [^\n]{0,80})', err)
            kind = m.group(1) if m else 'exit %s' % rc
            if done < len(todo):
                bad = todo[done]
                found.append((bad, kind, err[-1500:], len(out) - p))
                todo = todo[done + 1:]
            else:                                     # report at exit (LeakSanitizer): some history of this chunk leaked
                found.append((todo[-1], kind, err[-1500:], -1))
                break
        return res
    with ThreadPoolExecutor(nproc) as ex:
        parts = list(ex.map(one, chunks))
    return [x for p in parts for x in p], found


# ------------------------------------------------------------------ the check
def record(ctx, h, recs):
    for l, d in zip([x for x in h.lines() if not x.startswith('fail')], recs):
        if 'abort' in d:
            ctx.count('aborted-ops')
            continue
        op = l.split()[0]
        ctx.cov['evaluations'] += 1
        ctx.count('op:%s/%s' % (h.typ, op))
        if d['inj']:
            ctx.count('injected:%s/%s/%s' % (h.typ, op, d['rep']))
        if d['rep'] == 'fail':
            ctx.count('reports-failure')
        ctx.count('allocation-requests', d['nreq'])
        if d['lock'] == 0:
            ctx.count('calls-with-lock-depth-delta-0')
        ctx.distinct.add((h.typ, op, d['rep'], d['inj'], len(d['ev']), hash(d['A']) & 0xffff))


def evaluate(ctx, exe, hists, pid, asan=False, do_model=True):
    """run, monitor, compare with the model; returns the (hist, recs, sizes) list"""
    res = run_hists(ctx, exe, hists)
    good = []
    sizes = ''
    for h, recs, sz in res:
        sizes = sz or sizes
        if h is None:
            ctx.broken.append(('correspondence:harness', recs))
            continue
        good.append((h, recs))
        record(ctx, h, recs)
        for pids, sg, title, i in monitor(h, recs):
            if pid in pids:
                sg = dict(sg)
                sg.pop('expected', None)
                narrow = {k: v for k, v in sg.items() if k not in ('alloc',)}
                ctx.report('impl-vs-property', narrow, title, {'ops': h.lines(), 'failing_line': i, 'observed': recs[i].get('raw', '')[:600] if i < len(recs) else '',
                                                              'signature_full': sg})
    if do_model and good:
        ml = run_model(ctx, good, sizes)
        nbad = 0
        for (h, recs), m in zip(good, ml):
            if m is None:
                continue
            c = compare_model(h, recs, m, asan=asan)
            ctx.count('traces-compared-with-model')
            if c:
                nbad += 1
                if nbad <= 3:
                    lines = [l for l in h.lines() if not l.startswith('fail')]
                    ctx.broken.append(('correspondence:ledger-%s-%s' % (h.typ, lines[c[0]].split()[0] if c[0] < len(lines) else '?'),
                                       'implementation and allocation script disagree (%s) at line %d of\n  %s\n  impl : %s\n  model: %s' % (c[1], c[0], ' ; '.join(h.lines()), c[2], c[3])))
        ctx.count('model-mismatches', nbad)
    return good, sizes


def sample_hist(ctx, h, recs, limit=4):
    if len(ctx.cov['samples']) < limit:
        ctx.sample({'history': ' ; '.join(h.lines())[:600], 'target_line': recs[h.target_index()]['raw'][:500] if h.target_index() < len(recs) else ''}, limit)


def gcov_report(ctx, name):
    g = {}
    for src, funcs in ANCHORS.items():
        r = ctx.gcov(name, src, funcs)
        for f, v in r.items():
            g['%s:%s' % (src.split('/')[-1], f)] = v
    return g


def replay(ctx, exe, path, pid):
    d = json.load(open(path))
    r = d.get('replay', {})
    ops = r.get('ops')
    if not ops:
        print('replay file names no ops (obligation-level finding): ' + json.dumps(d.get('broken', d), indent=1)[:2000])
        return
    new = [l for l in ops if l.startswith('new')][0].split()
    h = Hist(new[1], [int(x) for x in new[2:]], [], 'new', [], 'replay')
    h.lines = lambda: ops
    h.target_index = lambda: r.get('failing_line', 0)
    inj = [l.split() for l in ops if l.startswith('fail')]
    h.inject = (inj[0][0], int(inj[0][1])) if inj else None
    good, sizes = evaluate(ctx, exe, [h], pid)
    for (hh, recs) in good:
        for l, dd in zip([x for x in ops if not x.startswith('fail')], recs):
            print('op   : %s\nimpl : %s' % (l, dd.get('raw', '')[:700]))
