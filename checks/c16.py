# C16 — encoders/decoders are exact inverses and emit the standard formats.
import itertools
from vlib import *

def gen_inputs(ctx):
    xs = []
    maxlen = 2
    for n in range(0, maxlen + 1):
        if n == 2 and ctx.tier == 'quick':
            # all pairs where each byte ranges over a 64-value boundary set + random fill
            bs = sorted(set(list(range(0, 8)) + list(range(0x20, 0x30)) + [0x3a, 0x3d, 0x3f, 0x40, 0x41, 0x5a, 0x5b, 0x5c, 0x5f, 0x60, 0x61, 0x7a, 0x7b, 0x7e, 0x7f,
                                 0x80, 0x81, 0xbf, 0xc0, 0xfc, 0xfd, 0xfe, 0xff, 0x30, 0x39, 0x0a, 0x0d, 0x09, 0x10, 0x0f, 0xf0, 0x3c, 0x3e, 0x2b, 0x25]))
            xs += [bytes(p) for p in itertools.product(bs, repeat=2)]
        else:
            xs += [bytes(p) for p in itertools.product(range(256), repeat=n)]
    nrand = 400 if ctx.tier == 'quick' else 4000
    for i in range(nrand):
        ln = ctx.rng.choice([3, 3, 4, 5, 6, 7, 16, 31, 32, 33, 64, 100, 255, 256, 1000, ctx.rng.randrange(3, 8192)])
        kind = ctx.rng.randrange(4)
        if kind == 0:
            xs.append(bytes(ctx.rng.randrange(256) for _ in range(ln)))
        elif kind == 1:
            xs.append(bytes(ctx.rng.choice(b'ab %+&=?#"<>/\\:@-._~\x00\x7f\x80\xff') for _ in range(ln)))
        elif kind == 2:
            xs.append(bytes([ctx.rng.choice([0, 0xff, 0x80, 0x3f, 0xfc, 0x03, 0xf0, 0x0f])]) * ln)
        else:
            xs.append(bytes(ctx.rng.randrange(32, 127) for _ in range(ln)))
    if ctx.tier == 'thorough':
        # all 3-byte strings: 16.8M is too slow through text pipes; take every (a,b,c) with a,c full range and b over 16 boundary values
        bs = [0, 1, 0x0f, 0x10, 0x3f, 0x40, 0x7f, 0x80, 0xbf, 0xc0, 0xf0, 0xfe, 0xff, 0x25, 0x2b, 0x3d]
        xs += [bytes((a, b, c)) for a in range(256) for b in bs for c in range(256)]
    return xs

def run(ctx, replay=None):
    exe = prepare(ctx, ['Properties_C16'], 'h_enc', CORE_SRCS, ['h_enc.c'])
    if exe is None:
        ctx.finish('build failed')
    if replay:
        il, ml, ops = replay_ops(ctx, 'enc', exe, replay)
        bad = [o for i, o in enumerate(ops) if i >= len(il) or i >= len(ml) or il[i] != ml[i]]
        d = json.load(open(replay)).get('replay', {})
        if 'expected' in d and il and il[0] != d['expected']:
            bad.append(ops[0])
        if bad or not ops:
            print('VIOLATION property=C16 replay=%s' % replay)
            sys.exit(1)
        print('replay: implementation now agrees with model and property on these ops')
        sys.exit(0)
    xs = gen_inputs(ctx)
    ops1 = []
    for x in xs:
        h = hexs(x)
        ops1 += ['urlenc ' + h, 'b64enc ' + h, 'hexenc ' + h, 'b64spec ' + h, 'hexspec ' + h]
    # the harness does not know the spec ops: split
    enc_ops = [o for o in ops1 if not o.startswith(('b64spec', 'hexspec'))]
    il, ml, err = both(ctx, 'enc', exe, enc_ops)
    if err:
        ctx.broken.append(('correspondence:enc-run', err))
    data = ('\n'.join(o for o in ops1 if o.startswith(('b64spec', 'hexspec'))) + '\n').encode()
    _, so, _ = ctx.driver(['enc'], inp=data)
    sl = so.decode().splitlines()
    corr_bad = 0
    dec_ops, dec_expect = [], []
    for i, x in enumerate(xs):
        e_impl = il[3 * i:3 * i + 3] if len(il) >= 3 * i + 3 else ['MISSING'] * 3
        e_mod = ml[3 * i:3 * i + 3] if len(ml) >= 3 * i + 3 else ['MISSING'] * 3
        spec = sl[2 * i:2 * i + 2] if len(sl) >= 2 * i + 2 else ['MISSING'] * 2
        ctx.cov['evaluations'] += 3
        if len(x) >= 1:
            ctx.distinct.add(x)
        for j, name in enumerate(['urlenc', 'b64enc', 'hexenc']):
            if e_impl[j] != e_mod[j]:
                corr_bad += 1
                if corr_bad <= 3:
                    ctx.broken.append(('correspondence:' + name, '%s %s: impl=%s model=%s' % (name, hexs(x), e_impl[j], e_mod[j])))
        # an encoder reads exactly `size` bytes of its input (exact-size buffer before an inaccessible page) and always returns
        for j, nm in enumerate(['urlenc', 'b64enc', 'hexenc']):
            if e_impl[j] in ('CRASH', 'TIMEOUT'):
                ctx.report('impl-vs-spec', {'op': nm, 'observed': e_impl[j].lower()},
                           '%s: %s on a valid input in an exact-size buffer (reads past the given size, or does not return)' % (nm, e_impl[j]),
                           {'op': nm + ' ' + hexs(x), 'actual': e_impl[j]})
        # property monitor: formats
        if e_impl[1] != spec[0]:
            ctx.report('impl-vs-spec', {'op': 'b64enc', 'observed': 'not-rfc4648'}, 'qbase64_encode output is not RFC 4648',
                       {'op': 'b64enc ' + hexs(x), 'expected': spec[0], 'actual': e_impl[1]})
        if e_impl[2] != spec[1]:
            ctx.report('impl-vs-spec', {'op': 'hexenc', 'observed': 'not-lowerhex'}, 'qhex_encode output is not two lowercase hex digits per byte',
                       {'op': 'hexenc ' + hexs(x), 'expected': spec[1], 'actual': e_impl[2]})
        # URL: literal chars must be safe, others %hh
        if e_impl[0] not in ('NULL', 'CRASH', 'TIMEOUT', 'MISSING'):
            u = unhex(e_impl[0]); k = 0; okform = True
            for b in x:
                if k < len(u) and u[k] == b and (33 <= b <= 126) and chr(b) not in '%+&=?#"<>':
                    k += 1
                elif u[k:k + 3].lower() == b'%%%02x' % b:
                    k += 3
                else:
                    okform = False; break
            if not okform or k != len(u):
                ctx.report('impl-vs-spec', {'op': 'urlenc', 'observed': 'unsafe-or-malformed'}, 'qurl_encode emitted an unsafe literal or a malformed escape',
                           {'op': 'urlenc ' + hexs(x), 'actual': e_impl[0]})
        for j, name in enumerate(['urldec', 'b64dec', 'hexdec']):
            if e_impl[j] not in ('NULL', 'CRASH', 'TIMEOUT', 'MISSING'):
                dec_ops.append(name + ' ' + e_impl[j]); dec_expect.append((name, x, hexs(x)))
        # leniency: upper-case escapes / hex digits, '+' for space
        if 0 < len(x) <= 64 and e_impl[0] not in ('NULL', 'CRASH', 'TIMEOUT', 'MISSING'):
            up = unhex(e_impl[0]).replace(b'%20', b'+')
            up = re.sub(rb'%([0-9a-f]{2})', lambda m: b'%' + m.group(1).upper(), up)
            dec_ops.append('urldec ' + hexs(up)); dec_expect.append(('urldec-lenient', x, hexs(x)))
            dec_ops.append('hexdec ' + hexs(x.hex().upper().encode())); dec_expect.append(('hexdec-lenient', x, hexs(x)))
    # round trips (monitor) and decoder correspondence on well-formed input
    il2, ml2, err = both(ctx, 'enc', exe, dec_ops)
    if err:
        ctx.broken.append(('correspondence:dec-run', err))
    for i, (name, x, hx) in enumerate(dec_expect):
        a = il2[i] if i < len(il2) else 'MISSING'
        m = ml2[i] if i < len(ml2) else 'MISSING'
        ctx.cov['evaluations'] += 1
        if a != hx:
            ctx.report('impl-vs-spec', {'op': name, 'observed': 'roundtrip-mismatch'}, '%s(encode(x)) != x' % name,
                       {'op': dec_ops[i], 'input': hx, 'expected': hx, 'actual': a})
        if a != m:
            corr_bad += 1
            if corr_bad <= 6:
                ctx.broken.append(('correspondence:' + name, '%s: impl=%s model=%s' % (dec_ops[i], a, m)))
    # malformed decoder inputs (correspondence; safety is C17's subject)
    mal = []
    alph = {'urldec': b'%+ a1fFgG\xff%', 'hexdec': b'0aAfFgG9 \xff', 'b64dec': b'AZaz09+/=-_ \n\xff'}
    for name, al in alph.items():
        maxn = 4 if ctx.tier == 'quick' else 6
        for n in range(0, maxn + 1):
            for p in itertools.product(sorted(set(al)), repeat=n):
                mal.append(name + ' ' + hexs(bytes(p)))
        for _ in range(300):
            ln = ctx.rng.randrange(1, 200)
            mal.append(name + ' ' + hexs(bytes(ctx.rng.choice(al + bytes([ctx.rng.randrange(1, 256)])) for _ in range(ln))))
    il3, ml3, err = both(ctx, 'enc', exe, mal)
    if err:
        ctx.broken.append(('correspondence:mal-run', err))
    for i, op in enumerate(mal):
        a = il3[i] if i < len(il3) else 'MISSING'
        m = ml3[i] if i < len(ml3) else 'MISSING'
        ctx.cov['evaluations'] += 1
        ctx.count('malformed-decode')
        if a != m:
            corr_bad += 1
            if corr_bad <= 9:
                ctx.broken.append(('correspondence:' + op.split()[0] + '-malformed', '%s: impl=%s model=%s' % (op, a, m)))
    # query strings
    qops, qexp = [], []
    import urllib.parse
    nq = 300 if ctx.tier == 'quick' else 3000
    def enc(b):   # python-side reference encoder: only used to build inputs; the result is checked against the pairs
        return ''.join(chr(c) if (chr(c).isalnum() and c < 128) or chr(c) in '-./:@\\_' else '%%%02x' % c for c in b).encode()
    for i in range(nq):
        k = ctx.rng.choice([0, 1, 1, 2, 3, 5, 9])
        pairs = []
        for _ in range(k):
            def rs():
                ln = ctx.rng.choice([0, 1, 2, 3, 8])
                return bytes(ctx.rng.choice(b'ab =&;%+ \t\n\xe9Z09\\/') if ctx.rng.random() < .7 else ctx.rng.randrange(1, 256) for _ in range(ln))
            pairs.append((rs(), rs()))
        eq, sep = ctx.rng.choice([(61, 38), (61, 59), (61, 38)])
        q = bytes([sep]).join(enc(n) + bytes([eq]) + enc(v) for n, v in pairs)
        qops.append('query %d %d %s' % (eq, sep, hexs(q)))
        qexp.append('%d %s' % (len(pairs), ' '.join(hexs(n) + '=' + hexs(v) for n, v in pairs)))
    # queries of exact total lengths around the sizes at which a fixed or growing buffer would be too small
    for total in [n + d for n in (64, 128, 255, 256, 512, 1024, 4096) for d in (-2, -1, 0, 1, 2)]:
        for tail in (b'v', b'%e9', b'+'):
            pairs = [(b'a', b'1'), (b'bb', b'x y')]
            head = bytes([38]).join(enc(n) + b'=' + enc(v) for n, v in pairs) + b'&k='
            fill = total - len(head) - len(tail)
            if fill < 0:
                continue
            q = head + b'z' * fill + tail
            val = b'z' * fill + (b'v' if tail == b'v' else b'\xe9' if tail == b'%e9' else b' ')
            qops.append('query 61 38 ' + hexs(q))
            allp = pairs + [(b'k', val)]
            qexp.append('%d %s' % (len(allp), ' '.join(hexs(n) + '=' + hexs(v) for n, v in allp)))
    # malformed queries (correspondence only)
    nmal = len(qops)
    for i in range(nq):
        ln = ctx.rng.randrange(0, 30)
        q = bytes(ctx.rng.choice(b'a=&%+ ;b1\t') for _ in range(ln))
        qops.append('query 61 38 ' + hexs(q)); qexp.append(None)
    il4, ml4, err = both(ctx, 'enc', exe, qops)
    if err:
        ctx.broken.append(('correspondence:query-run', err))
    for i, op in enumerate(qops):
        a = il4[i] if i < len(il4) else 'MISSING'
        m = ml4[i] if i < len(ml4) else 'MISSING'
        ctx.cov['evaluations'] += 1
        ctx.count('query')
        if qexp[i] is not None and a.rstrip() != qexp[i].rstrip():
            ctx.report('impl-vs-spec', {'op': 'query', 'observed': 'roundtrip-mismatch'}, 'qparse_queries(join(encode pairs)) != pairs',
                       {'op': op, 'expected': qexp[i], 'actual': a})
        if a != m:
            corr_bad += 1
            if corr_bad <= 12:
                ctx.broken.append(('correspondence:query', '%s: impl=%s model=%s' % (op, a, m)))
    ctx.sample({'op': enc_ops[7] if len(enc_ops) > 7 else '', 'impl': il[7] if len(il) > 7 else ''})
    ctx.sample({'op': dec_ops[-1], 'impl': il2[-1] if il2 else ''})
    ctx.sample({'op': mal[len(mal) // 2], 'impl': il3[len(mal) // 2] if len(il3) > len(mal) // 2 else ''})
    ctx.sample({'op': qops[3], 'impl': il4[3] if len(il4) > 3 else ''})
    ctx.cov['histograms']['inputs_by_length'] = {str(k): sum(1 for x in xs if len(x) == k) for k in (0, 1, 2, 3)}
    ctx.cov['histograms']['inputs_longer'] = sum(1 for x in xs if len(x) > 3)
    ctx.cov['exhaustive_lengths'] = '0..1 all 256 values; length 2: %s' % ('64x64 boundary set (quick)' if ctx.tier == 'quick' else 'all 65536; length 3: 256x16x256')
    ctx.cov['correspondence_mismatches'] = corr_bad
    ctx.assumptions += ['strings are passed to the decoders NUL-terminated in exactly-sized buffers before an inaccessible page',
                        'the model is the extracted Gallina code the theorems are about; tables regenerated from qencode.c']
    ctx.finish('encode every input with impl and model (equal?) and with the extracted RFC4648/hex specs (equal?); decode the impl output with impl and model '
               '(== input? equal?); malformed decoder inputs and query strings impl vs model; distinct_nontrivial = distinct non-empty byte strings encoded')
