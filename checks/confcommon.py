# Shared by checks/c20.py and checks/c17_conf.py: building the h_conf harness, generators of INI-style and Apache-style
# documents (abstract documents for the extracted reference semantics, raw/mutated text for correspondence and for C17),
# and the runners.
import itertools
from vlib import *

CONF_SRCS = CORE_SRCS + ['extensions/qconfig.c', 'extensions/qaconf.c']
BAD = ('CRASH', 'TIMEOUT', 'MISSING', 'FUEL', 'NULL')


def hx(b):
    return b.hex() if b else '-'


def build(ctx, name='h_conf', **kw):
    return ctx.cc(name, CONF_SRCS, ['h_conf.c'], wrap=('popen',), **kw)


def run_ops(ctx, exe, ops, timeout=1800, env=None):
    """Run op lines through a harness that may die (sanitizer abort, stack overflow): restart behind the op that killed it.
    Returns (lines, deaths): the line of a fatal op is 'DIED', deaths = [(index, stderr tail)]."""
    out, deaths, start = [], [], 0
    ops = [o.split('\t')[0] for o in ops]           # "impl op<TAB>model op": the harness gets the first form
    e = dict(os.environ)
    e.update(env or {})
    e.setdefault('TMPDIR', ctx.scratch)
    while start < len(ops):
        chunk = ops[start:]
        rc, o, err = ctx.run([exe], inp=('\n'.join(chunk) + '\n').encode(), timeout=timeout, env=e)
        txt = o.decode('latin1')
        lines = txt.splitlines()
        if txt and not txt.endswith('\n'):
            lines = lines[:-1]                      # a partial line of the op that died
        if len(lines) >= len(chunk):                 # every op answered (a non-zero exit can only come from exit-time reports)
            out += lines[:len(chunk)]
            break
        out += lines
        out.append('DIED')
        deaths.append((start + len(lines), err.decode('latin1')[-2500:]))
        start += len(lines) + 1
        if len(deaths) > 40:
            out += ['MISSING'] * (len(ops) - len(out))
            break
    return out, deaths


def run_model(ctx, ops, timeout=1800):
    """The extracted model on the op lines.  The extracted code recurses as deep as a value is long (it is not tail
    recursive), so the driver gets a large stack."""
    drv = os.path.join(OCAML, 'driver')
    ops = [o.split('\t')[-1] for o in ops]          # "impl op<TAB>model op": the model gets the second form
    cmd = ['sh', '-c', 'ulimit -s unlimited 2>/dev/null || ulimit -s 4000000 2>/dev/null; exec "$0" conf', drv]
    rc, o, e = ctx.run(cmd, inp=('\n'.join(ops) + '\n').encode(), timeout=timeout)
    lines = o.decode('latin1').splitlines()
    return lines, (None if rc == 0 else 'driver exit %s: %s' % (rc, e.decode('latin1')[-500:]))


BIG = 200000


def both_conf(ctx, exe, ops, timeout=1800, env=None):
    """Same op lines through the harness and the extracted model: (impl_lines, model_lines, err).
    Ops whose implementation output is larger than BIG characters (values that grow to megabytes through chains of
    references) are not given to the model, which is some fifty times slower than the C code on them; they are counted
    in the histogram 'model-skipped-large-output' and only checked for crash/timeout."""
    il, deaths = run_ops(ctx, exe, ops, timeout=timeout, env=env)
    keep = [k for k in range(len(ops)) if not (k < len(il) and len(il[k]) > BIG)]
    # 'env' ops must stay: they set up the state for later ops
    ml_k, err = run_model(ctx, [ops[k] for k in keep], timeout=timeout)
    ml = list(il[:len(ops)]) + ['MISSING'] * (len(ops) - len(il))
    for n, k in enumerate(keep):
        ml[k] = ml_k[n] if n < len(ml_k) else 'MISSING'
    if len(keep) < len(ops):
        ctx.count('model-skipped-large-output', len(ops) - len(keep))
    if deaths:
        err = (err or '') + ' harness died on op %d: %s' % (deaths[0][0], deaths[0][1][-300:])
    return il, ml, err


# ====================================================================== INI-style documents
WSI = [b'', b'', b' ', b'\t', b'  ', b' \t', b'\r', b' \r']
NAMEC = b'abcxyzABZ019_.-'
RICH = b'abcXYZ019_.-:;,/\\"\'<>()[]{}#%!@&*+~?| \t='


def ini_name(rng, sep, referable):
    n = rng.choice([1, 1, 2, 3, 5])
    alpha = NAMEC if referable or rng.random() < .6 else RICH + b'$'
    while True:
        s = bytes(rng.choice(alpha) for _ in range(n))
        if bytes([sep]) in s or s.strip(b' \t\r\n') != s or s[:1] in (b'#', b'['):
            continue
        if referable and (s[:1] in (b'!', b'%') or any(c in s for c in b'${}')):
            continue
        return s


def ini_lit(rng):
    n = rng.choice([1, 1, 2, 3, 6, 12])
    return bytes(rng.choice(RICH) for _ in range(n))


def gen_ini_doc(rng, envnames, size=None):
    """A well-formed abstract INI document: (sep, final_nl, items).  Items as tuples mirroring Coq's IniSpec.ini_item."""
    sep = rng.choice([61, 61, 61, 58, 124])
    items, defined, section = [], [], None
    for _ in range(size if size is not None else rng.choice([0, 1, 2, 4, 8, 16])):
        k = rng.random()
        lay = [rng.choice(WSI) for _ in range(4)]
        if k < .12:
            items.append(('C', lay[0], bytes(rng.choice(RICH + b'$') for _ in range(rng.randrange(0, 12)))))
        elif k < .2:
            items.append(('B', lay[0]))
        elif k < .35:
            if rng.random() < .2:
                name = b''
            else:
                while True:
                    name = bytes(rng.choice(NAMEC if rng.random() < .7 else RICH) for _ in range(rng.choice([1, 2, 4])))
                    if name.strip(b' \t\r\n') == name and name:
                        break
            items.append(('S', lay[0], lay[1], name, lay[2], lay[3]))
            section = name or None
            if name:
                defined.append(name + b'.')
        else:
            referable = rng.random() < .7
            name = ini_name(rng, sep, referable) if rng.random() < .95 else b''
            pieces = []
            for _ in range(rng.choice([0, 1, 1, 2, 3, 5])):
                r = rng.random()
                cands = [d for d in defined if d and d[:1] not in (b'!', b'%') and not any(c in d for c in b'${}')]
                if r < .35 and cands:
                    pieces.append(('R', rng.choice(cands[-6:] if rng.random() < .7 else cands)))
                elif r < .45 and envnames:
                    pieces.append(('V', rng.choice(envnames)))
                else:
                    pieces.append(('L', ini_lit(rng)))
            # the written value must be in trimmed form: no blank at either end of the template text
            while pieces and pieces[0][0] == 'L' and pieces[0][1][:1] in (b' ', b'\t', b'\r'):
                pieces[0] = ('L', pieces[0][1].lstrip(b' \t\r'))
                if not pieces[0][1]:
                    pieces.pop(0)
            while pieces and pieces[-1][0] == 'L' and pieces[-1][1][-1:] in (b' ', b'\t', b'\r'):
                pieces[-1] = ('L', pieces[-1][1].rstrip(b' \t\r'))
                if not pieces[-1][1]:
                    pieces.pop()
            pieces = [p for p in pieces if p[0] != 'L' or p[1]]
            items.append(('E', lay[0], name, lay[1], lay[2], lay[3], pieces))
            defined.append((section + b'.' if section else b'') + name)
    return sep, rng.random() < .7, items


def enc_ini_doc(sep, fnl, items):
    out = []
    for it in items:
        if it[0] == 'C':
            out.append('C,%s,%s' % (hx(it[1]), hx(it[2])))
        elif it[0] == 'B':
            out.append('B,%s' % hx(it[1]))
        elif it[0] == 'S':
            out.append('S,%s,%s,%s,%s,%s' % tuple(hx(x) for x in it[1:]))
        else:
            t = '+'.join(p[0] + hx(p[1]) for p in it[6]) or '-'
            out.append('E,%s,%s,%s,%s,%s,%s' % (hx(it[1]), hx(it[2]), hx(it[3]), hx(it[4]), hx(it[5]), t))
    return 'inispec %d %d %s' % (sep, 1 if fnl else 0, ';'.join(out) or '-')


INI_SIG = b'${}%!=[]# \t\na1.'


def mutate(rng, text, alpha):
    b = bytearray(text)
    for _ in range(rng.choice([1, 1, 2, 3, 6])):
        k = rng.random()
        pos = rng.randrange(len(b) + 1)
        if k < .35:
            b[pos:pos] = bytes([rng.choice(alpha)])
        elif k < .6 and b:
            del b[min(pos, len(b) - 1)]
        elif k < .8 and b:
            b[min(pos, len(b) - 1)] = rng.choice(alpha)
        elif k < .9 and b:
            p2 = rng.randrange(len(b) + 1)
            lo, hi = min(pos, p2), max(pos, p2)
            b[pos:pos] = b[lo:hi][:40]
        else:
            b = b[:pos]
    return bytes(x for x in b if x != 0)


# hostile INI inputs aimed at the expansion loop
INI_HOSTILE = [
    b'a=${a}\nb=${a}', b'a=${b}\nb=${a}\nc=${a}', b'a=${a}${a}\nb=${a}', b'a=${a}${a}${a}${a}${a}${a}${a}${a}\nb=${a}\nc=${b}',
    b'a=${b}\nb=${c}\nc=${a}\nd=${a}${b}${c}', b'a=$\nb={a}\nc=${a}${b}', b'a=${\nb=${a}a}', b'a=${${${${', b'a=}}}}${{{{',
    b'[${s.}]\nx=${s.}', b'a=${%}\nb=${!}\nc=${}\nd=${${}}', b'[', b']', b'[]', b'[ ]', b'[a', b'a]', b'=', b'==', b'#', b'[#]',
    b'a=${a\n}', b'a=x\nb=${a${a}}', b'x1=1\na=${x${x1}}', b'a=${a}\n[a]\na=${a}\nb=${a.a}${a.}', b'a=${{}}\nb=${a}',
    b'a=' + b'${a}' * 1200, b'a=1\nb=' + b'${a}' * 999, b'a=1\nb=' + b'${a}' * 1000, b'a=1\nb=' + b'${a}' * 1001,
    b'a=' + b'x' * 5000 + b'\nb=${a}${a}${a}\nc=${b}${b}${b}', b'\n\n\n', b' \t\r\n \t', b'a=b=c=d', b'${a}=${a}\n${a}=1\nb=${${a}}',
]
# referenced names of every length around the sizes a fixed name buffer would have: defined, undefined, environment, section-qualified
for _L in [30, 31, 32, 33, 62, 63, 64, 65, 126, 127, 128, 129] + list(range(250, 262)) + [510, 511, 512, 513, 1022, 1023, 1024, 1025, 2047, 2048, 2049, 4000]:
    _n = bytes(0x61 + (j * 5 + _L) % 26 for j in range(_L))
    INI_HOSTILE += [_n + b'=v\nb=<${' + _n + b'}>', b'b=<${' + _n + b'}>\nc=${b}', b'b=${%' + _n[1:] + b'}|', b'[s]\n' + _n[2:] + b'=w\n[t]\nb=${s.' + _n[2:] + b'}.']


# ====================================================================== Apache-style documents
QAC_A1 = {1: 1 << 8, 2: 1 << 16, 3: 1 << 24}
QAC_AA = {1: 1 << 13, 2: 1 << 21, 3: 1 << 29}
TAKEALL = 255


def mk_take(count, types=(), aa=0):
    t = TAKEALL if count is None else count
    for j, ty in enumerate(types[:5]):
        if ty:
            t |= QAC_A1[ty] << j
    if aa:
        t |= QAC_AA[aa]
    return t


# option: (name, take, hascb, sectionid, sections)
FIXED_TABLES = [
    # the table of the documentation / examples/apacheconf.c
    [(b'Listen', mk_take(1, [1]), 1, 0, 0), (b'Protocols', mk_take(None), 1, 0, 1), (b'IPSEC', mk_take(1, [3]), 1, 0, 1),
     (b'Domain', mk_take(1), 1, 2, 1), (b'TTL', mk_take(1, [1]), 1, 0, 2 | 4), (b'MX', mk_take(2, [1]), 1, 0, 2),
     (b'Host', mk_take(1), 1, 4, 2), (b'IPv4', mk_take(1), 1, 0, 4), (b'TXT', mk_take(1), 1, 0, 4), (b'CNAME', mk_take(1), 1, 0, 4)],
    # every type, default types, counts 0..6, a section without id, an option without callback
    [(b'I', mk_take(1, [1]), 1, 0, 0), (b'F', mk_take(1, [2]), 1, 0, 0), (b'B', mk_take(1, [3]), 1, 0, 0), (b'N', mk_take(0), 1, 0, 0),
     (b'AI', mk_take(None, aa=1), 1, 0, 0), (b'AF', mk_take(None, aa=2), 1, 0, 0), (b'AB', mk_take(None, aa=3), 1, 0, 0),
     (b'Mix', mk_take(None, [3, 1], aa=2), 1, 0, 0), (b'Six', mk_take(6, [1, 2, 3, 0, 1], aa=3), 1, 0, 0),
     (b'Sec', mk_take(None), 1, 2, 0), (b'Sub', mk_take(1), 1, 4, 2), (b'Anon', mk_take(0), 1, 0, 0), (b'Quiet', mk_take(1), 0, 0, 0),
     (b'In2', mk_take(1), 1, 0, 2), (b'In4', mk_take(1), 1, 0, 4), (b'Root', mk_take(None), 1, 0, 1), (b'I', mk_take(2), 1, 0, 0)],
]


def gen_table(rng):
    if rng.random() < .5:
        return rng.choice(FIXED_TABLES)
    t, nsec = [], 0
    names = set()
    for _ in range(rng.randrange(1, 9)):
        while True:
            nm = bytes(rng.choice(b'abcDEF12_') for _ in range(rng.choice([1, 2, 3])))
            if nm.lower() not in names:
                names.add(nm.lower())
                break
        cnt = rng.choice([None, 0, 1, 1, 2, 3, 6])
        types = [rng.choice([0, 0, 1, 2, 3]) for _ in range(5)]
        aa = rng.choice([0, 0, 1, 2, 3])
        issec = rng.random() < .35 and nsec < 4
        sid = 0
        if issec:
            nsec += 1
            sid = rng.choice([0, 1 << nsec, 1 << nsec, 1 << nsec])
        secs = rng.choice([0, 0, 1, 2, 4, 6, 1 | 2, 2 | 4 | 8])
        t.append((nm, mk_take(cnt, types, aa), 0 if rng.random() < .1 else 1, sid, secs))
    if rng.random() < .15:
        t.append(t[0][:1] + (mk_take(None), 1, 0, 0))      # a second entry with the same name: the first one wins
    return t


def enc_table(t):
    return ';'.join('%s,%d,%d,%d,%d' % (hx(n), take, cb, sid, secs) for n, take, cb, sid, secs in t) or '-'


INTS = [b'0', b'1', b'-1', b'42', b'007', b'-0', b'2147483648', b'-99999999999999999999']
FLOATS = [b'1.5', b'-0.25', b'10.0', b'0.0', b'-3.14159', b'00.00']
NOTNUM = [b'1.', b'.5', b'1.2.3', b'-', b'1e5', b'+1', b'--1', b'1-', b'0x10', b'1 ', b'', b'-.5', b'1..2', b'abc', b'-1.', b'\xb2']
BOOLS_T = [b'on', b'yes', b'true', b'1']
BOOLS_F = [b'off', b'no', b'false', b'0']
NOTBOOL = [b'2', b'o', b'onn', b'y', b'tru', b'falsee', b'01', b'', b'maybe', b'-1', b'true ']
WTEXT = b'abcXYZ019_.-:;,/\\"\'<>()[]{}#%!@&*+~?| \t='


def randcase(rng, s):
    return bytes((c ^ 32) if 65 <= (c & ~32) <= 90 and rng.random() < .5 else c for c in s)


def bare_ok(text, first_of_dir=False, first_of_sect=False):
    if not text or any(c in text for c in b' \t\r\n\0') or text[:1] in (b'"', b"'"):
        return False
    if first_of_dir and text[:1] in (b'#', b'<'):
        return False
    if first_of_sect and text[:1] == b'/':
        return False
    return True


def mk_word(rng, text, prev_bare, first=False, kind=None):
    """(gap, style, text); kind: 'dir' / 'sect' for the first word of a line."""
    can_bare = bare_ok(text, first and kind == 'dir', first and kind == 'sect')
    if can_bare and rng.random() < .65:
        style = 'b'
    else:
        style = rng.choice(['s0', 'd0', 's0', 'd0', 's1', 'd1'])
    if first:
        gap = rng.choice([b'', b'', b' ', b'\t'])
    elif prev_bare:
        gap = rng.choice([b' ', b' ', b'\t', b'  ', b' \t '])
    else:
        gap = rng.choice([b' ', b' ', b'\t', b'', b'  '])
    return (gap, style, text)


def arg_for(rng, ty, ok=True):
    if ty == 1:
        return rng.choice(INTS) if ok else rng.choice(FLOATS + NOTNUM)
    if ty == 2:
        return rng.choice(INTS + FLOATS) if ok else rng.choice(NOTNUM)
    if ty == 3:
        return randcase(rng, rng.choice(BOOLS_T + BOOLS_F)) if ok else rng.choice(NOTBOOL)
    r = rng.random()
    if r < .3:
        return bytes(rng.choice(b'abcxyz019._-/') for _ in range(rng.randrange(1, 8)))
    if r < .4:
        return rng.choice(INTS + FLOATS + BOOLS_T + BOOLS_F + NOTNUM)
    return bytes(rng.choice(WTEXT) for _ in range(rng.choice([0, 1, 2, 5, 12])))


def decl_type(take, j):
    deft = 1 if take & QAC_AA[1] else 2 if take & QAC_AA[2] else 3 if take & QAC_AA[3] else 0
    if j > 5:
        return deft
    for ty in (1, 2, 3):
        if take & (QAC_A1[ty] << (j - 1)):
            return ty
    return deft


def gen_aconf_doc(rng, table, flags, size=None, bad_rate=.12):
    """A well-formed Apache-style document tree for the table (mostly conforming; a fraction of the lines violates a
    declaration, which the reference semantics must then report with that line)."""
    ci = bool(flags & 1)
    budget = [size if size is not None else rng.choice([0, 1, 2, 4, 8, 16, 30])]
    WS = [b'', b'', b' ', b'\t', b'    ', b' \t']

    def line_words(o, kind):
        name, take = o[0], o[1]
        nm = randcase(rng, name) if ci and rng.random() < .5 else name
        cnt = take & 255
        n = rng.choice([0, 1, 2, 3, 6, 7, 9]) if cnt == 255 else cnt
        bad = rng.random() < bad_rate
        if bad and cnt != 255 and rng.random() < .4:
            n = max(0, n + rng.choice([-1, 1, 2]))
            bad = False
        texts = []
        badpos = rng.randrange(1, n + 1) if bad and n else 0
        for j in range(1, n + 1):
            ty = decl_type(take, j)
            texts.append(arg_for(rng, ty, ok=(j != badpos)) if rng.random() > .03 else b'!fail')
        ws, prev_bare = [], False
        for i, t in enumerate([nm] + texts):
            w = mk_word(rng, t, prev_bare, first=(i == 0), kind=kind)
            ws.append(w)
            prev_bare = w[1] == 'b'
        return ws

    def body(secid, depth):
        nodes = []
        while budget[0] > 0 and rng.random() < (.93 if depth == 0 else .8):
            budget[0] -= 1
            k = rng.random()
            if k < .1:
                nodes.append(('C', rng.choice(WS), bytes(rng.choice(WTEXT) for _ in range(rng.randrange(0, 10)))))
            elif k < .17:
                nodes.append(('B', rng.choice(WS + [b'\r'])))
            elif k < .37 and depth < 6:
                secs = [o for o in table if o[3] != 0 or (o[0] in (b'Anon',))]
                unknown = rng.random() < .12 or not secs
                if unknown:
                    o = (bytes(rng.choice(b'QRSTU') for _ in range(3)), TAKEALL, 1, 0, 0)
                else:
                    o = rng.choice(secs if rng.random() < .3 else ([s for s in secs if s[4] == 0 or (s[4] & secid)] or secs))
                ws = line_words(o, 'sect')
                inner = body(o[3] & 0xffffffff if not unknown else 0, depth + 1)
                cn = ws[0][2]
                if rng.random() < .04:
                    cn = cn + b'x'
                elif ci and rng.random() < .5:
                    cn = randcase(rng, cn)
                if not bare_ok(cn) or b'>' in cn:
                    cn = ws[0][2] if bare_ok(ws[0][2]) and b'>' not in ws[0][2] else b'Z'
                nodes.append(('S', rng.choice(WS), rng.choice(WS + [b'\r']), ws, inner, rng.choice(WS), cn, rng.choice(WS + [b'\r'])))
            else:
                plain = [o for o in table if o[3] == 0]
                r = rng.random()
                if r < .08 or not plain:
                    o = (bytes(rng.choice(b'QRSTU') for _ in range(3)), TAKEALL, 1, 0, 0)
                elif r < .2:
                    o = rng.choice(plain)
                else:
                    o = rng.choice([p for p in plain if p[4] == 0 or (p[4] & secid)] or plain)
                nodes.append(('D', rng.choice(WS), rng.choice(WS + [b'\r', b' \r']), line_words(o, 'dir')))
        return nodes
    return body(1, 0)


def enc_words(ws):
    return '+'.join('%s:%s:%s' % (hx(g), st, hx(t)) for g, st, t in ws) or '-'


def enc_nodes(nodes):
    out = []
    for n in nodes:
        if n[0] == 'C':
            out.append('C,%s,%s' % (hx(n[1]), hx(n[2])))
        elif n[0] == 'B':
            out.append('B,%s' % hx(n[1]))
        elif n[0] == 'D':
            out.append('D,%s,%s,%s' % (hx(n[1]), hx(n[2]), enc_words(n[3])))
        else:
            out.append('S,%s,%s,%s' % (hx(n[1]), hx(n[2]), enc_words(n[3])))
            out += enc_nodes(n[4])
            out.append('X,%s,%s,%s' % (hx(n[5]), hx(n[6]), hx(n[7])))
    return out


def enc_aconf_doc(flags, defcb, table, nodes):
    return 'acspec %d %d %s %s' % (flags, defcb, enc_table(table), ';'.join(enc_nodes(nodes)) or '-')


def count_nodes(nodes):
    return sum(1 + (count_nodes(n[4]) if n[0] == 'S' else 0) for n in nodes)


def depth_nodes(nodes):
    return max([0] + [1 + depth_nodes(n[4]) for n in nodes if n[0] == 'S'])


AC_SIG = b'"\'\\ \t\n<>/#a1'
AC_HOSTILE = [
    b'A x', b'A "x\\', b"A 'x\\", b'A "x', b'A "', b"A '", b'A \\', b'"', b"'", b'\\', b'<', b'>', b'<>', b'</>', b'</', b'< >', b'<  >',
    b'<a', b'a>', b'<a>', b'</a>', b'<a>\n</a>', b'<a>\n</b>', b'<a>\n<a>\n</a>', b'<a "x" >\n</a>', b'<a x  >\n</a>', b'<a>\n</a x y>',
    b'a "\\"\\\\\\\'" \'\\\'\\"\'', b'a ""', b"a ''", b'a """', b'a "b"c"d"', b'a "b"\'c\'d', b'#', b' # x', b'\r\n\r\n', b'a\\ b',
    b'a ' + b'x' * 4094, b'a ' + b'x' * 4093, b'a ' + b'x ' * 3000, b'"' + b'a' * 5000, b'a "' + b'\\' * 4093, b'a "' + b'\\' * 4092 + b'"',
    b'<a>\n' * 300, b'<a>\n' * 300 + b'</a>\n' * 300, b'<a>\n' * 255 + b'a\n' + b'</a>\n' * 255, b'<a>\n' * 256 + b'a\n' + b'</a>\n' * 256,
]
# lines that end up in an error message (unregistered option, unknown section, wrong close, unbalanced bracket, wrong argument type),
# of every length around the sizes a fixed message buffer would have
for _L in (60, 100, 120, 127, 128, 150, 180, 200, 220, 230, 240, 250, 254, 255, 256, 257, 300, 511, 512, 1000, 1023, 1024, 2000, 4000, 4090):
    AC_HOSTILE += [b'Z' * _L + b' v', b'Z v' + b'w' * _L, b'<' + b'c' * _L + b'>\n</' + b'c' * _L + b'>', b'<a>\n</' + b'b' * _L + b'>', b'<a ' + b'q' * _L,
                   b'1 ' + b'n' * _L + b' x', b'<a>\n' + b'Y' * _L + b'\n</a>']
AC_C17_TABLE = [(b'a', mk_take(None), 1, 2, 0), (b'1', mk_take(None, [3, 1], aa=2), 1, 0, 0)]
