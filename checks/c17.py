# C17 - decoders and parsers are memory-safe and terminate on arbitrary input.
# Decoder half here; the configuration-parser half lives in checks/c17_conf.py (run_conf) when present.
import itertools
from vlib import *

def run(ctx, replay=None):
    props = ['Properties_C17']
    if os.path.exists(os.path.join(COQ, 'Properties_C17_conf.v')):
        props.append('Properties_C17_conf')
    exe = prepare(ctx, props, 'h_enc', CORE_SRCS, ['h_enc.c'])
    if exe is None:
        ctx.finish('build failed')
    if replay and json.load(open(replay)).get('replay', {}).get('area') == 'conf':
        import c17_conf
        ok = c17_conf.replay_conf(ctx, replay)
        if not ok:
            print('VIOLATION property=C17 replay=%s' % replay); sys.exit(1)
        print('replay: no crash, no timeout, no sanitizer report and agreement with the model on these ops'); sys.exit(0)
    if replay:
        il, ml, ops = replay_ops(ctx, 'enc', exe, replay)
        bad = [o for i, o in enumerate(ops) if i >= len(il) or il[i] in ('CRASH', 'TIMEOUT', 'NOTERM') or il[i].startswith('TOOLONG') or (i < len(ml) and il[i] != ml[i])]
        if bad or not ops:
            print('VIOLATION property=C17 replay=%s' % replay); sys.exit(1)
        print('replay: no over-read, termination, length bound and agreement with the model on these ops'); sys.exit(0)
    quick = ctx.tier == 'quick'
    ops = []
    alph = {'urldec': b'%+a1fFgG \xff', 'hexdec': b'0aAfFgG9 \xff', 'b64dec': b'AZaz09+/=-_ \n\xff'}
    for name, al in alph.items():
        al = sorted(set(al))
        for n in range(0, (5 if quick else 6) + 1):
            for p in itertools.product(al, repeat=n):
                ops.append(name + ' ' + hexs(bytes(p)))
        for _ in range(400 if quick else 6000):
            ln = ctx.rng.choice([1, 2, 3, 7, 8, 9, 63, 64, 65, 200, 1000, ctx.rng.randrange(1, 5000)])
            r = ctx.rng.random()
            if r < 0.5:
                s = bytes(ctx.rng.choice(al + [ctx.rng.randrange(1, 256)]) for _ in range(ln))
            elif r < 0.8:     # valid text with a damaged tail
                s = bytes(ctx.rng.choice(b'abcXYZ019%+=') for _ in range(ln)) + ctx.rng.choice([b'%', b'%4', b'%%', b'=', b'a', b''])
            else:
                s = bytes(ctx.rng.randrange(1, 256) for _ in range(ln))
            ops.append(name + ' ' + hexs(s))
    # query strings: arbitrary bytes with the separators
    for _ in range(600 if quick else 8000):
        ln = ctx.rng.randrange(0, 60)
        q = bytes(ctx.rng.choice(b'a=&%+ ;b1\t=&&%%') for _ in range(ln))
        ops.append('query 61 38 ' + hexs(q))
    il, ml, err = both(ctx, 'enc', exe, ops, timeout=1800)
    if err:
        ctx.broken.append(('correspondence:run', err))
    nbad = 0
    for i, op in enumerate(ops):
        a = il[i] if i < len(il) else 'MISSING'
        m = ml[i] if i < len(ml) else 'MISSING'
        kind = op.split()[0]
        ctx.cov['evaluations'] += 1
        ctx.count(kind)
        arg = op.split()[-1]
        if len(arg) > 2:
            ctx.distinct.add(op)
        inlen = 0 if arg == '-' else len(arg) // 2
        sig = None
        if a == 'CRASH':
            sig = {'op': kind, 'observed': 'overread'}
        elif a == 'TIMEOUT':
            sig = {'op': kind, 'observed': 'no-termination'}
        elif a.startswith('TOOLONG'):
            sig = {'op': kind, 'observed': 'output-longer-than-input'}
        elif a == 'NOTERM':
            sig = {'op': kind, 'observed': 'no-terminator'}
        elif kind != 'query' and a not in ('-', 'MISSING') and len(a) // 2 > inlen:
            sig = {'op': kind, 'observed': 'output-longer-than-input'}
        if sig:
            ctx.report('impl-vs-spec', sig, '%s: %s' % (kind, sig['observed']), {'op': op, 'actual': a, 'model': m})
        elif a != m:
            nbad += 1
            if nbad <= 4:
                ctx.broken.append(('correspondence:' + kind, '%s: impl=%s model=%s' % (op[:200], a[:200], m[:200])))
    # search engine for reads outside the buffer that do not reach the guard page (e.g. a table indexed with a negative
    # char): the same harness built with ASan+UBSan on the escape-heavy part of the stream
    exa, msg = ctx.cc('h_enc_asan', CORE_SRCS, ['h_enc.c'], san='asan')
    if exa is None:
        ctx.broken.append(('obligation:build-asan', msg))
    else:
        hi = [bytes([0x25, a, b]) for a in (0x80, 0xc3, 0xfe, 0xff, 0x41, 0x34) for b in (0x80, 0xa9, 0xff, 0x7f, 0x41)]
        aops = ['urldec ' + hexs(x + b'z') for x in hi] + ['query 61 38 ' + hexs(b'q=' + x) for x in hi]
        aops += [o for o in ops if o.split()[0] in ('urldec', 'hexdec', 'b64dec')][-(1500 if quick else 12000):]
        pos = 0
        env = dict(os.environ, ASAN_OPTIONS='detect_leaks=0:abort_on_error=0', UBSAN_OPTIONS='print_stacktrace=1')
        while pos < len(aops):
            rc, o, er = ctx.run([exa], inp=('\n'.join(aops[pos:]) + '\n').encode(), timeout=900, env=env)
            done = len(o.decode('latin1').splitlines())
            ctx.cov['evaluations'] += done
            ctx.count('asan-decode', done)
            if rc == 0 or done >= len(aops) - pos:
                break
            bad = aops[pos + done]
            txt = er.decode('latin1')
            kindm = re.search(r'ERROR: AddressSanitizer: (\S+)|runtime error: ([^\n]*)', txt)
            what = (kindm.group(1) or kindm.group(2)) if kindm else 'sanitizer-abort'
            ctx.report('impl-vs-spec', {'op': bad.split()[0], 'observed': 'memory-error'}, '%s: %s reported by the sanitizer build' % (bad.split()[0], what),
                       {'op': bad, 'report': txt[:2500]})
            pos += done + 1
    ctx.sample({'op': ops[len(ops) // 3][:200], 'impl': il[len(ops) // 3][:200] if len(il) > len(ops) // 3 else ''})
    ctx.sample({'op': ops[-1][:200], 'impl': il[-1][:200] if il else ''})
    ctx.cov['correspondence_mismatches'] = nbad
    try:
        import c17_conf
        c17_conf.run_conf(ctx)
    except ModuleNotFoundError:
        ctx.notes.append('configuration-parser half not present in this revision')
    ctx.assumptions += ['inputs are NUL-terminated strings in exact-size buffers whose last byte is followed by an inaccessible page; a 5 s watchdog per call']
    ctx.finish('all strings up to length 5 (quick) / 6 (thorough) over the significant alphabet of each decoder, random and damaged-tail strings up to 5000 bytes, random query strings; '
               'monitor: no fault at the guard page, termination, output length <= input length, terminator written; correspondence with the extracted buffer-level model')
