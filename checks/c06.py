from harrcommon import harr_check
import os
def run(ctx, replay=None):
    props = ['Properties_C06'] if os.path.exists(os.path.join(os.path.dirname(os.path.abspath(__file__)), '..', 'coq', 'Properties_C06.v')) else []
    harr_check(ctx, props, 'C06', replay)
