From Coq Require Import List ZArith Lia Bool.
Import ListNotations.
Open Scope Z_scope.

(* ---------- C integer conversions used by qlist.c ---------- *)
Definition u64 (z:Z) : Z := z mod 2^64.                          (* value as size_t *)
Definition i32 (z:Z) : Z := (z + 2^31) mod 2^32 - 2^31.         (* value as int (two's complement wrap) *)

Section QList.
Variable elt : Type.                   (* one stored element (its bytes) *)
Variable esize : elt -> Z.             (* its size in bytes, > 0 *)

Record qlist := { items : list elt; maxn : Z }.
Definition num (q:qlist) : Z := Z.of_nat (length (items q)).
Definition datasum (q:qlist) : Z := fold_right (fun e a => esize e + a) 0 (items q).

Inductive err := EINVAL | ENOBUFS | ERANGE.
Inductive res (X:Type) := Ok (x:X) | Fail (e:err).
Arguments Ok {X}. Arguments Fail {X}.

Fixpoint insert_at {A} (l:list A) (i:nat) (x:A) : list A :=
  match i, l with
  | O, _ => x :: l
  | S i', a :: r => a :: insert_at r i' x
  | S _, [] => [x]
  end.
Fixpoint remove_at {A} (l:list A) (i:nat) : list A :=
  match i, l with
  | _, [] => []
  | O, _ :: r => r
  | S i', a :: r => a :: remove_at r i'
  end.

(* qlist_addat as written: index normalisation mixes int and size_t *)
Definition addat (q:qlist) (index:Z) (x:elt) : res qlist :=
  if esize x <=? 0 then Fail EINVAL else
  if (0 <? maxn q) && (maxn q <=? num q) then Fail ENOBUFS else
  let idx := if index <? 0 then i32 (u64 (u64 (num q + u64 index) + 1)) else index in
  if (idx <? 0) || (num q <? u64 idx) then Fail ERANGE else
  Ok {| items := insert_at (items q) (Z.to_nat idx) x; maxn := maxn q |}.

(* get_obj: index normalisation for access *)
Definition get_index (q:qlist) (index:Z) : res nat :=
  let idx := if index <? 0 then i32 (u64 (num q + u64 index)) else index in
  if num q <=? u64 idx then Fail ERANGE else Ok (Z.to_nat idx).

Definition getat (q:qlist) (index:Z) : res elt :=
  match get_index q index with
  | Ok i => match nth_error (items q) i with Some e => Ok e | None => Fail ERANGE end
  | Fail e => Fail e end.
Definition removeat (q:qlist) (index:Z) : res qlist :=
  match get_index q index with
  | Ok i => Ok {| items := remove_at (items q) i; maxn := maxn q |}
  | Fail e => Fail e end.

(* ---------- the ideal sequence ---------- *)
Definition spec_ins_pos (n index:Z) : option Z :=
  let p := if index <? 0 then n + index + 1 else index in if (0 <=? p) && (p <=? n) then Some p else None.
Definition spec_acc_pos (n index:Z) : option Z :=
  let p := if index <? 0 then n + index else index in if (0 <=? p) && (p <? n) then Some p else None.

Ltac zify_all := unfold u64, i32 in *; repeat match goal with
  | |- context[?a mod ?b] => let q := fresh "q" in let r := fresh "r" in
      let H := fresh in let H0 := fresh in
      assert (H: b > 0) by lia; pose proof (Z_div_mod_eq_full a b) as H0; pose proof (Z.mod_pos_bound a b ltac:(lia));
      set (r := a mod b) in *; set (q := a / b) in *; clearbody q r end.

(* under the documented ranges the C index arithmetic computes exactly the mathematical position *)
Lemma addat_index_ok n index : 0 <= n < 2^31 -> - 2^31 <= index < 2^31 ->
  let idx := if index <? 0 then i32 (u64 (u64 (n + u64 index) + 1)) else index in
  (if (idx <? 0) || (n <? u64 idx) then None else Some idx) = spec_ins_pos n index.
Proof.
  intros Hn Hi. unfold spec_ins_pos. destruct (index <? 0) eqn:E.
  - apply Z.ltb_lt in E. assert (Hu: u64 index = 2^64 + index) by (unfold u64; symmetry; apply (Z.mod_unique _ _ (-1)); lia).
    rewrite Hu.
    assert (H1: u64 (n + (2^64 + index)) = if n + index <? 0 then 2^64 + (n + index) else n + index).
    { destruct (n + index <? 0) eqn:E1; [apply Z.ltb_lt in E1 | apply Z.ltb_ge in E1]; unfold u64; symmetry;
      [apply (Z.mod_unique _ _ 0) | apply (Z.mod_unique _ _ 1)]; lia. }
    rewrite H1. cbv zeta.
    destruct (n + index <? 0) eqn:E1; [apply Z.ltb_lt in E1 | apply Z.ltb_ge in E1].
    + (* p = n+index+1 <= 0 *)
      destruct (Z.eq_dec (n + index + 1) 0) as [E0|E0].
      * assert (u64 (2^64 + (n + index) + 1) = 0) by (unfold u64; symmetry; apply (Z.mod_unique _ _ 1); lia). rewrite H.
        assert (i32 0 = 0) by reflexivity. rewrite H0. replace (n + index + 1) with 0 by lia.
        assert (u64 0 = 0) by reflexivity. rewrite H2. cbn. destruct (n <? 0) eqn:E2; [apply Z.ltb_lt in E2; lia|].
        destruct (0 <=? n) eqn:E3; [reflexivity|apply Z.leb_gt in E3; lia].
      * assert (H: u64 (2^64 + (n + index) + 1) = 2^64 + (n + index + 1)) by (unfold u64; symmetry; apply (Z.mod_unique _ _ 0); lia). rewrite H.
        assert (H0: i32 (2^64 + (n + index + 1)) = n + index + 1).
        { unfold i32. assert ((2^64 + (n + index + 1) + 2^31) mod 2^32 = n + index + 1 + 2^31) by (symmetry; apply (Z.mod_unique _ _ (2^32)); lia). lia. }
        rewrite H0. assert (n + index + 1 <? 0 = true) by (apply Z.ltb_lt; lia). rewrite H2. cbn.
        assert (0 <=? n + index + 1 = false) by (apply Z.leb_gt; lia). rewrite H3. reflexivity.
    + assert (H: u64 (n + index + 1) = n + index + 1) by (unfold u64; apply Z.mod_small; lia). rewrite H.
      assert (H0: i32 (n + index + 1) = n + index + 1) by (unfold i32; rewrite Z.mod_small by lia; lia). rewrite H0.
      assert (H2: u64 (n + index + 1) = n + index + 1) by exact H. rewrite H2.
      assert (n + index + 1 <? 0 = false) by (apply Z.ltb_ge; lia). rewrite H3. cbn.
      assert (n <? n + index + 1 = false) by (apply Z.ltb_ge; lia). rewrite H4.
      assert (0 <=? n + index + 1 = true) by (apply Z.leb_le; lia). assert (n + index + 1 <=? n = true) by (apply Z.leb_le; lia). rewrite H5, H6. reflexivity.
  - apply Z.ltb_ge in E. cbv zeta. assert (H: u64 index = index) by (unfold u64; apply Z.mod_small; lia). rewrite H.
    assert (index <? 0 = false) by (apply Z.ltb_ge; lia). rewrite H0. cbn.
    assert (0 <=? index = true) by (apply Z.leb_le; lia). rewrite H1. cbn.
    destruct (n <? index) eqn:E1; [apply Z.ltb_lt in E1; assert (index <=? n = false) by (apply Z.leb_gt; lia); rewrite H2; reflexivity|].
    apply Z.ltb_ge in E1. assert (index <=? n = true) by (apply Z.leb_le; lia). rewrite H2. reflexivity.
Qed.
End QList.
