From Coq Require Import List Arith Lia Bool.
Import ListNotations.

(* shape of the table during one traversal: node identities only *)
Inductive tr := L | N (l:tr) (i:nat) (r:tr).
Definition rid t := match t with L => None | N _ i _ => Some i end.
Fixpoint ids t := match t with L => [] | N l i r => ids l ++ i :: ids r end.   (* in-order *)

Definition upd {A} (f:nat->A) (i:nat) (v:A) : nat -> A := fun j => if Nat.eqb j i then v else f j.

(* traversal state kept inside the tree by qtreetbl_getnext: per-node stamp (tid == epoch) and parent pointer *)
Record mst := { cur : option nat; stp : nat -> bool; nx : nat -> option nat }.
Inductive act := Move | Yield (i:nat) | Done | Crash.

Section Machine.
Variable view : nat -> option (option nat * option nat).   (* node id -> ids of left and right child *)

Definition unst (s:mst) (o:option nat) := match o with Some j => negb (stp s j) | None => false end.
Definition go_child (s:mst) (c:nat) (o:option nat) : mst :=
  match o with
  | Some j => {| cur := Some j; stp := stp s; nx := upd (nx s) j (Some c) |}
  | None => s end.

(* one iteration of the while loop in qtreetbl_getnext *)
Definition mstep (s:mst) : act * mst :=
  match cur s with
  | None => (Done, s)
  | Some c =>
    match view c with
    | None => (Crash, s)
    | Some (lo, ro) =>
      if unst s lo then (Move, go_child s c lo)
      else if negb (stp s c) then (Yield c, {| cur := Some c; stp := upd (stp s) c true; nx := nx s |})
      else if unst s ro then (Move, go_child s c ro)
      else (Move, {| cur := nx s c; stp := stp s; nx := nx s |})
    end
  end.

(* run n loop iterations, collecting the nodes handed to the caller; successive getnext calls
   simply continue this machine, because the cursor given back is the node just yielded *)
Fixpoint runm (n:nat) (s:mst) : list nat * mst :=
  match n with
  | O => ([], s)
  | S n' => match mstep s with
            | (Move, s') => runm n' s'
            | (Yield i, s') => let (ys, s'') := runm n' s' in (i :: ys, s'')
            | (Done, s') => ([], s')
            | (Crash, s') => ([], s')
            end
  end.

Lemma mstep_done s s' : mstep s = (Done, s') -> s' = s /\ forall m, runm m s = ([], s).
Proof. intros H. assert (s' = s /\ mstep s = (Done, s)).
  { unfold mstep in *. destruct (cur s); [|inversion H; auto]. destruct (view n) as [[lo ro]|]; [|discriminate].
    destruct (unst s lo); [discriminate|]. destruct (negb (stp s n)); [discriminate|]. destruct (unst s ro); discriminate. }
  destruct H0 as [-> H1]. split; auto. intros [|m]; cbn; [reflexivity|]. rewrite H1. reflexivity. Qed.
Lemma mstep_crash s s' : mstep s = (Crash, s') -> s' = s /\ forall m, runm m s = ([], s).
Proof. intros H. assert (s' = s /\ mstep s = (Crash, s)).
  { unfold mstep in *. destruct (cur s); [|discriminate]. destruct (view n) as [[lo ro]|]; [|inversion H; auto].
    destruct (unst s lo); [discriminate|]. destruct (negb (stp s n)); [discriminate|]. destruct (unst s ro); discriminate. }
  destruct H0 as [-> H1]. split; auto. intros [|m]; cbn; [reflexivity|]. rewrite H1. reflexivity. Qed.

Lemma runm_app n : forall m s, runm (n + m) s =
  let (ys, s') := runm n s in let (zs, s'') := runm m s' in (ys ++ zs, s'').
Proof. induction n as [|n IH]; intros m s; cbn [plus runm].
  - destruct (runm m s); reflexivity.
  - destruct (mstep s) as [[| i | |] s1] eqn:E.
    + apply IH.
    + rewrite IH. destruct (runm n s1) as [ys s']. destruct (runm m s') as [zs s'']. reflexivity.
    + destruct (mstep_done _ _ E) as [-> Hd]. rewrite Hd. reflexivity.
    + destruct (mstep_crash _ _ E) as [-> Hd]. rewrite Hd. reflexivity.
Qed.

(* the view agrees with the shape u on every node of u *)
Fixpoint wfview (u:tr) : Prop :=
  match u with L => True | N l i r => view i = Some (rid l, rid r) /\ wfview l /\ wfview r end.

Definition inb (j:nat) (l:list nat) := existsb (Nat.eqb j) l.
Lemma inb_true j l : inb j l = true <-> In j l.
Proof. unfold inb. rewrite existsb_exists. split; [intros (x & H & E); apply Nat.eqb_eq in E; subst; auto | intros H; exists j; split; auto; apply Nat.eqb_refl]. Qed.
Lemma inb_false j l : inb j l = false <-> ~ In j l.
Proof. rewrite <- inb_true. destruct (inb j l); split; congruence. Qed.
Lemma inb_app j a b : inb j (a ++ b) = inb j a || inb j b.
Proof. unfold inb. apply existsb_app. Qed.

(* visiting a whole unstamped subtree rooted at i: yields its nodes in order, stamps exactly
   them, and comes back to whatever the parent pointer of i was *)
Definition walk_spec (u:tr) : Prop :=
  forall s i, rid u = Some i -> wfview u -> NoDup (ids u) -> cur s = Some i ->
    (forall j, In j (ids u) -> stp s j = false) ->
    exists n s', runm n s = (ids u, s') /\ cur s' = nx s i /\
      (forall j, stp s' j = stp s j || inb j (ids u)) /\
      (forall j, j = i \/ ~ In j (ids u) -> nx s' j = nx s j).

(* optional descent into a child v of node c, then back at c *)
Lemma via_child v c s :
  (v <> L -> walk_spec v) -> wfview v -> NoDup (ids v) -> ~ In c (ids v) ->
  (forall j, In j (ids v) -> stp s j = false) ->
  exists n s', 
    runm n (go_child s c (rid v)) = (ids v, s') /\
    (v <> L -> cur s' = Some c) /\ (v = L -> s' = s) /\
    (forall j, stp s' j = stp s j || inb j (ids v)) /\
    (forall j, ~ In j (ids v) -> nx s' j = nx s j).
Proof.
  intros IH Hwf Hnd Hc Hun. destruct v as [|vl vi vr].
  - exists 0, s. cbn. repeat split; auto; try congruence. intros j. now rewrite orb_false_r.
  - cbn [rid go_child].
    set (s1 := {| cur := Some vi; stp := stp s; nx := upd (nx s) vi (Some c) |}).
    destruct (IH ltac:(discriminate) s1 vi eq_refl Hwf Hnd eq_refl Hun) as (n & s' & Hrun & Hcur & Hst & Hnx).
    exists n, s'. split; [exact Hrun|]. split; [|split; [discriminate|split]].
    + intros _. rewrite Hcur. cbn. unfold upd. now rewrite Nat.eqb_refl.
    + exact Hst.
    + intros j Hj. rewrite Hnx by (right; exact Hj). cbn. unfold upd.
      destruct (Nat.eqb j vi) eqn:E; [|reflexivity]. apply Nat.eqb_eq in E; subst. exfalso; apply Hj. cbn. apply in_or_app; right; left; reflexivity.
Qed.

Lemma nodup_node l i r : NoDup (ids (N l i r)) ->
  NoDup (ids l) /\ NoDup (ids r) /\ ~ In i (ids l) /\ ~ In i (ids r) /\ (forall j, In j (ids l) -> ~ In j (ids r)).
Proof. cbn. intros H. pose proof (NoDup_remove_1 _ _ _ H) as H1. pose proof (NoDup_remove_2 _ _ _ H) as H2.
  assert (NoDup (ids l) /\ NoDup (ids r) /\ forall j, In j (ids l) -> ~ In j (ids r)).
  { clear H H2. induction (ids l) as [|a t IH]; cbn in *; [repeat split; auto; constructor|].
    inversion H1; subst. destruct (IH H3) as (A & B & C). repeat split; auto.
    - constructor; auto. intros Hin; apply H2; apply in_or_app; auto.
    - intros j [<-|Hj]; [intros Hin; apply H2; apply in_or_app; auto | auto]. }
  destruct H0 as (A & B & C). repeat split; auto; intros Hin; apply H2; apply in_or_app; auto. Qed.

Lemma rid_in v j : rid v = Some j -> In j (ids v).
Proof. destruct v; cbn; [discriminate|]. intros H; inversion H; subst. apply in_or_app; right; left; reflexivity. Qed.

Theorem walk_all u : u <> L -> walk_spec u.
Proof.
  induction u as [|l IHl i r IHr]; [congruence|]. intros _ s i0 Hrid Hwf Hnd Hcur Hun.
  cbn in Hrid; inversion Hrid; subst i0; clear Hrid. destruct Hwf as (Hv & Hwl & Hwr).
  destruct (nodup_node _ _ _ Hnd) as (Hndl & Hndr & Hil & Hir & Hdis).
  assert (Hunl: forall j, In j (ids l) -> stp s j = false) by (intros; apply Hun; cbn; apply in_or_app; auto).
  assert (Hunr: forall j, In j (ids r) -> stp s j = false) by (intros; apply Hun; cbn; apply in_or_app; right; right; auto).
  assert (Huni: stp s i = false) by (apply Hun; cbn; apply in_or_app; right; left; auto).
  (* A: left subtree *)
  destruct (via_child l i s IHl Hwl Hndl Hil Hunl) as (n1 & sA & HrA & HcA & HLA & HstA & HnxA).
  assert (HA: exists nA, runm nA s = (ids l, sA) /\ cur sA = Some i).
  { destruct l as [|ll li lr].
    - rewrite (HLA eq_refl). exists 0. split; auto.
    - exists (S n1). split; [|apply HcA; discriminate]. cbn [runm]. unfold mstep. rewrite Hcur, Hv. cbn [rid unst].
      rewrite (Hunl li) by (apply rid_in; reflexivity). cbn [negb]. exact HrA. }
  destruct HA as (nA & HrunA & HcurA).
  (* B: yield i *)
  set (sB := {| cur := Some i; stp := upd (stp sA) i true; nx := nx sA |}).
  assert (HstAi: stp sA i = false). { rewrite HstA, Huni. apply inb_false in Hil. now rewrite Hil. }
  assert (HlA: unst sA (rid l) = false).
  { destruct l as [|ll li lr]; [reflexivity|]. cbn. rewrite HstA. 
    assert (inb li (ids (N ll li lr)) = true) by (apply inb_true, rid_in; reflexivity). rewrite H. now rewrite orb_true_r. }
  assert (HB: mstep sA = (Yield i, sB)).
  { unfold mstep. rewrite HcurA, Hv, HlA, HstAi. reflexivity. }
  (* C: right subtree *)
  assert (HunrB: forall j, In j (ids r) -> stp sB j = false).
  { intros j Hj. cbn. unfold upd. destruct (Nat.eqb j i) eqn:E; [apply Nat.eqb_eq in E; subst; contradiction|].
    rewrite HstA, (Hunr j Hj). cbn. apply inb_false. intros Hin. exact (Hdis _ Hin Hj). }
  destruct (via_child r i sB IHr Hwr Hndr Hir HunrB) as (n2 & sC & HrC & HcC & HLC & HstC & HnxC).
  assert (HlB: unst sB (rid l) = false).
  { destruct l as [|ll li lr]; [reflexivity|]. cbn. unfold upd.
    destruct (Nat.eqb li i) eqn:E; [reflexivity|]. cbn in HlA. exact HlA. }
  assert (HC: exists nC, runm nC sB = (ids r, sC) /\ cur sC = Some i).
  { destruct r as [|rl ri rr].
    - rewrite (HLC eq_refl). exists 0. split; auto.
    - exists (S n2). split; [|apply HcC; discriminate]. cbn [runm]. unfold mstep. change (cur sB) with (Some i). cbv iota beta. rewrite Hv, HlB.
      assert (stp sB i = true) by (cbn; unfold upd; now rewrite Nat.eqb_refl). rewrite H. cbn [negb rid unst].
      rewrite (HunrB ri) by (apply rid_in; reflexivity). cbn [negb]. exact HrC. }
  destruct HC as (nC & HrunC & HcurC).
  (* D: climb *)
  set (sD := {| cur := nx sC i; stp := stp sC; nx := nx sC |}).
  assert (HstCi: stp sC i = true). { rewrite HstC. cbn. unfold upd. now rewrite Nat.eqb_refl. }
  assert (HlC: unst sC (rid l) = false).
  { destruct l as [|ll li lr]; [reflexivity|]. cbn [unst rid] in *. rewrite HstC. apply negb_false_iff in HlB. now rewrite HlB. }
  assert (HrCu: unst sC (rid r) = false).
  { destruct r as [|rl ri rr]; [reflexivity|]. cbn [unst rid]. rewrite HstC.
    assert (inb ri (ids (N rl ri rr)) = true) by (apply inb_true, rid_in; reflexivity). rewrite H. now rewrite orb_true_r. }
  assert (HD: mstep sC = (Move, sD)).
  { unfold mstep. rewrite HcurC, Hv, HlC, HstCi, HrCu. reflexivity. }
  exists (nA + (1 + (nC + 1))), sD.
  split; [|split; [|split]].
  - rewrite runm_app, HrunA. change (1 + (nC + 1)) with (S (nC + 1)). cbn [runm]. rewrite HB.
    rewrite runm_app, HrunC. cbn [runm]. rewrite HD. cbn. rewrite app_nil_r. reflexivity.
  - cbn. rewrite HnxC by exact Hir. cbn. apply HnxA; exact Hil.
  - intros j. cbn [stp sD]. rewrite HstC. change (stp sB j) with (upd (stp sA) i true j). unfold upd.
    change (ids (N l i r)) with (ids l ++ [i] ++ ids r). rewrite !inb_app. unfold inb at 3. cbn [existsb].
    destruct (Nat.eqb j i) eqn:E.
    + cbn. rewrite !orb_true_r. reflexivity.
    + rewrite HstA. cbn. now rewrite <- orb_assoc.
  - intros j Hj. cbn [nx sD]. 
    assert (~ In j (ids r)). { destruct Hj as [->|Hj]; [exact Hir|]. intros Hin; apply Hj; cbn; apply in_or_app; right; right; exact Hin. }
    assert (~ In j (ids l)). { destruct Hj as [->|Hj]; [exact Hil|]. intros Hin; apply Hj; cbn; apply in_or_app; left; exact Hin. }
    rewrite HnxC by assumption. cbn. apply HnxA; assumption.
Qed.
End Machine.

(* a complete fresh walk: all nodes unstamped, root's parent pointer cleared *)
Corollary fresh_walk view t s i : rid t = Some i -> wfview view t -> NoDup (ids t) ->
  cur s = Some i -> nx s i = None -> (forall j, In j (ids t) -> stp s j = false) ->
  exists n s', runm view n s = (ids t, s') /\ cur s' = None /\ mstep view s' = (Done, s').
Proof. intros Hr Hw Hn Hc Hx Hu. assert (t <> L) by (destruct t; [discriminate|congruence]).
  destruct (walk_all view t H s i Hr Hw Hn Hc Hu) as (n & s' & Hrun & Hcur & _).
  exists n, s'. split; auto. rewrite Hx in Hcur. split; auto. unfold mstep. now rewrite Hcur. Qed.
Print Assumptions fresh_walk.
